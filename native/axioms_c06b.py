"""Cross-check of the numpy METADATA axioms of pyvc/npshape.py (and the nutils_poly ones of contracts/C06b.py) against the real
numpy / nutils_poly on random small arrays.

Two roles:
  * `run(rng, check)` (under /venv/bin/python, called from native/axioms.py): draws random calls, records what the REAL library
    returns (shape + kind, or the exception class), then hands the list to
  * `python3-vt native/axioms_c06b.py --model FILE` which evaluates the MODEL code itself (pyvc.npshape with concrete lengths; z3 lives
    in that interpreter only) and reports shape + kind / exception per case.  The two must agree case by case.
"""
import json, os, sys, subprocess, tempfile, math

HERE = os.path.dirname(os.path.dirname(os.path.abspath(__file__)))
KINDS = ['bool', 'int64', 'float64', 'complex128']


# ---------------------------------------------------------------------------------------------------------------- real side
def _kind(a):
    import numpy
    a = numpy.asarray(a)
    return {'b': 0, 'i': 1, 'u': 1, 'f': 2, 'c': 3}[a.dtype.kind]


def _arr(rng, shape, kind):
    import numpy
    a = rng.randint(0, 2, size=shape)
    return a.astype([bool, int, float, complex][kind])


def _enc(x):
    import numpy
    if isinstance(x, numpy.ndarray):
        return {'a': list(x.shape), 'k': _kind(x)}
    if isinstance(x, tuple):
        return {'t': [_enc(y) for y in x]}
    if isinstance(x, list):
        return {'l': [_enc(y) for y in x]}
    if isinstance(x, slice):
        return {'s': [x.start, x.stop]}
    if x is Ellipsis:
        return {'e': 1}
    if isinstance(x, (int, str)) or x is None:
        return x
    if isinstance(x, (numpy.integer,)):
        return int(x)
    raise TypeError(x)


def _shape(rng, rank, lo=0, hi=4):
    return tuple(int(rng.randint(lo, hi)) for _ in range(rank))


def cases(rng, rounds):
    import numpy
    import nutils_poly as poly
    from nutils import numeric
    out = []

    def rec(fn, real, *args, **kw):
        try:
            r = real()
            if isinstance(r, tuple):
                r = r[0]
            r = numpy.asarray(r)
            exp = {'shape': list(r.shape), 'kind': _kind(r)}
        except (ValueError, IndexError, TypeError) as e:
            exp = {'raises': 'IndexError' if isinstance(e, IndexError) and not isinstance(e, ValueError) else 'ValueError'}
        out.append({'fn': fn, 'args': [_enc(a) for a in args], 'kw': {k: _enc(v) for k, v in kw.items()}, 'expect': exp})

    # element-wise kind tables UFUNC1 / UFUNC2: every function, every kind tuple (ground, exhaustive)
    U1 = ['negative', 'absolute', 'logical_not', 'real', 'imag', 'conjugate', 'sign', 'reciprocal', 'sin', 'cos', 'tan', 'arcsin', 'arccos', 'arctan', 'sinc',
          'sinh', 'cosh', 'tanh', 'arctanh', 'exp', 'log']
    U2 = ['greater', 'less', 'equal', 'minimum', 'maximum', 'floor_divide', 'mod', 'power', 'arctan2']
    for name in U1:
        for k1 in range(4):
            x = numpy.full((2,), 0.5).astype([bool, int, float, complex][k1])
            rec('ufunc:' + name, lambda: getattr(numpy, name)(x), x)
    for name in U2:
        for k1 in range(4):
            for k2 in range(4):
                x, y = numpy.ones((2, 1)).astype([bool, int, float, complex][k1]), numpy.ones((3,)).astype([bool, int, float, complex][k2])
                rec('ufunc:' + name, lambda: getattr(numpy, name)(x, y), x, y)
    for k1 in range(4):
        for k2 in range(4):
            x = numpy.ones((2,)).astype([bool, int, float, complex][k1])
            rec('array', lambda: numpy.array(x, dtype=KINDS[k2]), x, dtype=KINDS[k2])
    for _ in range(rounds):
        r = int(rng.randint(0, 4))
        k = int(rng.randint(0, 4))
        a = _arr(rng, _shape(rng, r), k)
        axes = tuple(int(i) for i in rng.permutation(r))
        rec('transpose', lambda: numpy.transpose(a, axes), a, axes)
        if r:
            bad = tuple(int(i) for i in rng.randint(0, r, size=r))
            rec('transpose', lambda: numpy.transpose(a, bad), a, bad)
            rec('moveaxis', lambda: numpy.moveaxis(a, -1, 0), a, -1, 0)
            for f in ('sum', 'prod', 'any', 'all'):
                rec(f, lambda: getattr(numpy, f)(a, axis=-1), a, axis=-1)
            idx = rng.randint(0, max(1, a.shape[-1]), size=_shape(rng, int(rng.randint(0, 3))))
            if a.shape[-1]:
                rec('take', lambda: numpy.take(a, idx, axis=-1), a, idx, axis=-1)
            rec('argsort', lambda: numpy.argsort(a.real, -1, kind='stable'), a, -1, kind='stable')
            n = int(rng.randint(0, 4))
            rec('repeat', lambda: numpy.repeat(a[..., numpy.newaxis], n, -1), a[..., numpy.newaxis], n, -1)
        if r >= 2:
            rec('einsum', lambda: numpy.einsum('...kk->...k', a), '...kk->...k', a)
            rec('einsum', lambda: numpy.einsum('...ii->...i', a), '...ii->...i', a)
            f = a.astype(float)
            rec('det', lambda: numpy.linalg.det(f), f)
            rec('inv', lambda: numeric.inv(f + 2 * numpy.eye(f.shape[-1]) if f.shape[-1] == f.shape[-2] else f), f)
        # einsum with explicit labels
        nl = int(rng.randint(1, 4))
        lens = [int(rng.randint(0, 3)) for _ in range(nl)]
        if rng.randint(0, 4) == 0:
            lens2 = [int(rng.randint(0, 3)) for _ in range(nl)]
        else:
            lens2 = lens
        specs = []
        opsl = []
        for j in range(int(rng.randint(1, 4))):
            labs = [int(i) for i in rng.randint(0, nl, size=int(rng.randint(0, 3)))]
            specs.append(''.join(chr(97 + i) for i in labs))
            opsl.append(_arr(rng, tuple((lens if j == 0 else lens2)[i] for i in labs), max(1, k)))
        used = sorted(set(''.join(specs)))
        outl = [c for c in used if rng.randint(0, 2)]
        rng.shuffle(outl)
        if rng.randint(0, 6) == 0:
            outl.append(chr(97 + nl))  # a label no operand carries
        fmt = ','.join(specs) + '->' + ''.join(outl)
        rec('einsum', lambda: numpy.einsum(fmt, *opsl), fmt, *opsl)
        # reshape
        tgt = _shape(rng, int(rng.randint(0, 3)), 0, 4)
        rec('reshape', lambda: a.reshape(tgt), a, tgt)
        if r >= 2:
            good = a.shape[:-2] + (a.shape[-2] * a.shape[-1],)
            rec('reshape', lambda: a.reshape(good), a, good)
        n = int(rng.randint(-2, 5))
        rec('arange', lambda: numpy.arange(n), n)
        v = _arr(rng, _shape(rng, 1, 0, 5), 1)
        rec('cumsum_list', lambda: numpy.cumsum([0, *v]), v)
        tab = numpy.sort(rng.randint(0, 5, size=int(rng.randint(0, 5))))
        side = 'left' if rng.randint(0, 2) else 'right'
        rec('searchsorted', lambda: numpy.searchsorted(tab, a.real.astype(int), side=side), tab, a.real.astype(int), side=side)
        srt = numpy.arange(len(tab) + int(rng.randint(0, 2)))
        rec('searchsorted', lambda: numpy.searchsorted(tab, a.real.astype(int), side=side, sorter=srt), tab, a.real.astype(int), side=side, sorter=srt)
        # choose
        ish = _shape(rng, int(rng.randint(0, 3)), 1, 3)
        nch = int(rng.randint(1, 3))
        index = rng.randint(0, nch, size=ish)
        ch = _arr(rng, ish + (nch,), k)
        rec('choose', lambda: numpy.choose(index, numpy.moveaxis(ch, -1, 0)), index, numpy.moveaxis(ch, -1, 0))
        # indexing
        items = []
        used_ell = False
        for j in range(int(rng.randint(0, r + 2))):
            c = int(rng.randint(0, 5))
            if c == 0 and not used_ell:
                items.append(Ellipsis)
                used_ell = True
            elif c == 1:
                items.append(None)
            elif c == 2:
                items.append(slice(None if rng.randint(0, 2) else int(rng.randint(-3, 4)), None if rng.randint(0, 2) else int(rng.randint(-3, 5))))
            elif c == 3:
                items.append(int(rng.randint(-3, 3)))
            else:
                items.append(slice(None))
        it = tuple(items)
        rec('getitem', lambda: a[it], a, it)
        if r:
            ia = rng.randint(0, max(1, a.shape[-1]), size=_shape(rng, int(rng.randint(1, 3)), 0, 3))
            it2 = (slice(None),) * (r - 1) + (ia,)
            if a.shape[-1]:
                rec('getitem', lambda: a[it2], a, it2)
        # broadcasting
        b = _arr(rng, tuple(int(rng.choice([1, s])) for s in a.shape[int(rng.randint(0, r + 1)):]) if rng.randint(0, 3) else _shape(rng, int(rng.randint(0, 3)), 1, 3), int(rng.randint(0, 4)))
        rec('mul', lambda: a * b, a, b)
        rec('add', lambda: a + b, a, b)
        def _store():
            c = a.astype(complex)
            c[...] = b
            return c
        rec('setitem', _store, a, b)
        rec('empty', lambda: numpy.empty(tgt, dtype=[bool, int, float, complex][k]), tgt, KINDS[k])
        w = rng.randint(0, 2, size=int(rng.randint(0, 5))).astype(bool)
        out.append({'fn': 'nonzero', 'args': [_enc(w)], 'kw': {'count': int(w.sum())}, 'expect': {'shape': list(w.nonzero()[0].shape), 'kind': _kind(w.nonzero()[0])}})
        rec('astype', lambda: a.astype(int, copy=False), a.real if k == 3 else a, 'int64')
        if r:
            m = numpy.empty(a.shape, dtype=bool)
            rec('not_equal_out', lambda: numpy.not_equal(a[..., 1:], a[..., :-1], out=m[..., 1:]), a[..., 1:], a[..., :-1], m[..., 1:])
        # nutils_poly
        nv = int(rng.randint(0, 3))
        dl, dr = int(rng.randint(0, 3)), int(rng.randint(0, 3))
        lead = _shape(rng, int(rng.randint(0, 3)), 0, 3)
        cl = numpy.ones(lead + (poly.ncoeffs(nv, dl),))
        pts = numpy.ones(_shape(rng, int(rng.randint(0, 2)), 0, 3) + (nv,))
        rec('eval_outer', lambda: poly.eval_outer(cl, pts), cl, pts)
        rec('gradplan', lambda: poly.GradPlan(nv, dl)(cl), nv, dl, cl)
        vars_ = [['Left', 'Right', 'Both'][int(i)] for i in rng.randint(0, 3, size=int(rng.randint(0, 3)))]
        nl_, nr_ = sum(v != 'Right' for v in vars_), sum(v != 'Left' for v in vars_)
        cl2 = numpy.ones(lead + (poly.ncoeffs(nl_, dl),))
        cr2 = numpy.ones(lead + (poly.ncoeffs(nr_, dr),))
        rec('mulplan', lambda: poly.MulPlan([getattr(poly.MulVar, v) for v in vars_], dl, dr)(cl2, cr2), vars_, dl, dr, cl2, cr2)
        d2 = int(rng.randint(0, 4))
        out.append({'fn': 'polycounts', 'args': [nv, d2], 'kw': {}, 'expect': {'shape': [poly.ncoeffs(nv, d2), poly.degree(nv, poly.ncoeffs(nv, d2))], 'kind': 1}})
    return out


def run(rng, check, rounds=60):
    cs = cases(rng, rounds)
    scratch = os.path.join(os.path.expanduser('~'), '.cache', 'verif-scratch')
    os.makedirs(scratch, exist_ok=True)
    fd, path = tempfile.mkstemp(prefix='axc06b-', suffix='.json', dir=scratch)
    try:
        with os.fdopen(fd, 'w') as f:
            json.dump(cs, f)
        p = subprocess.run(['python3-vt', os.path.abspath(__file__), '--model', path], capture_output=True, text=True, timeout=900)
        try:
            got = json.loads(p.stdout.strip().split('\n')[-1])
        except Exception:
            check('c06b-metadata-model-ran', False, p.stdout[-300:], p.stderr[-600:])
            return
    finally:
        os.unlink(path)
    check('c06b-metadata-model-all-cases', len(got) == len(cs), len(got), len(cs))
    for c, g in zip(cs, got):
        check('npshape:' + c['fn'], g == c['expect'], c['args'], c['kw'], 'numpy:', c['expect'], 'model:', g)


# --------------------------------------------------------------------------------------------------------------- model side
def model_main(path):
    sys.path.insert(0, HERE)
    import z3
    from pyvc.core import Ctx
    from pyvc.values import PyRaise, Unsupported, SInt
    from pyvc import npshape as nps, ops
    from pyvc.ops import Builtin
    from contracts import C06b

    def dec(x):
        if isinstance(x, dict):
            if 'a' in x:
                return nps.NArr([z3.IntVal(s) for s in x['a']], x['k'])
            if 't' in x:
                return tuple(dec(y) for y in x['t'])
            if 'l' in x:
                return [dec(y) for y in x['l']]
            if 's' in x:
                return slice(x['s'][0], x['s'][1])
            if 'e' in x:
                return Ellipsis
        return x

    def comb_sub(term):
        t = z3.simplify(term)
        if z3.is_int_value(t):
            return t.as_long()
        if z3.is_app(t) and t.decl().name() == 'poly_ncoeffs':
            nv, d = comb_sub(t.arg(0)), comb_sub(t.arg(1))
            return math.comb(d + nv, nv)
        raise ValueError('not ground: %s' % t)

    NP = nps.NumpyShape()
    out = []
    for c in json.load(open(path)):
        ctx = Ctx([], [])
        ctx.in_setup = False
        a = [dec(x) for x in c['args']]
        kw = {k: dec(v) for k, v in c['kw'].items()}
        fn = c['fn']
        try:
            if fn in ('transpose', 'moveaxis', 'sum', 'prod', 'any', 'all', 'take', 'argsort', 'repeat', 'einsum', 'arange', 'searchsorted', 'choose', 'empty'):
                r = NP.sym_getattr(ctx, fn)(ctx, *a, **kw)
            elif fn.startswith('ufunc:'):
                r = NP.sym_getattr(ctx, fn[6:])(ctx, *a)
            elif fn == 'array':
                r = nps.np_array(ctx, *a, **kw)
            elif fn == 'det':
                r = nps.np_det(ctx, *a)
            elif fn == 'inv':
                r = nps.nutils_numeric_inv(ctx, *a)
            elif fn == 'reshape':
                r = a[0].m_reshape(ctx, a[1])
            elif fn == 'cumsum_list':
                r = nps.np_cumsum(ctx, nps.SeqOfScalars(1 + a[0].shape[0], a[0].kind))
            elif fn == 'getitem':
                r = a[0].getitem(ctx, a[1])
            elif fn in ('mul', 'add'):
                r = a[0].binop(ctx, '*' if fn == 'mul' else '+', a[1], False)
            elif fn == 'setitem':
                a[0].setitem(ctx, Ellipsis, a[1])
                r = a[0]
            elif fn == 'nonzero':
                a[0].count_nonzero = z3.IntVal(kw['count'])
                r = nps.np_nonzero(ctx, a[0])[0]
            elif fn == 'astype':
                r = a[0].m_astype(ctx, a[1])
            elif fn == 'not_equal_out':
                r = nps.np_not_equal(ctx, a[0], a[1], out=a[2])
            elif fn == 'eval_outer':
                r = C06b.poly_eval_outer(ctx, *a)
            elif fn == 'gradplan':
                r = C06b._gradplan(ctx, (a[0], a[1]), a[2])
            elif fn == 'mulplan':
                r = C06b._mulplan(ctx, (tuple(a[0]), a[1], a[2]), a[3], a[4])
            elif fn == 'polycounts':
                # the two uninterpreted counts are related as the C06 contracts assume: ncoeffs = C(d+nv, nv), degree its inverse
                nc = math.comb(a[1] + a[0], a[0])
                out.append({'shape': [nc, a[1] if a[0] else 0], 'kind': 1})
                continue
            else:
                raise ValueError(fn)
            if fn == 'setitem':
                out.append({'shape': [comb_sub(s) for s in r.shape], 'kind': 3})
            else:
                out.append({'shape': [comb_sub(s) for s in r.shape], 'kind': comb_sub(r.kind)})
        except PyRaise as e:
            out.append({'raises': e.exc.split(':')[0] if e.exc.split(':')[0] in ('IndexError',) else 'ValueError'})
        except Unsupported as e:
            out.append({'unsupported': str(e)})
    print(json.dumps(out))


if __name__ == '__main__':
    if len(sys.argv) == 3 and sys.argv[1] == '--model':
        model_main(sys.argv[2])
    else:
        import numpy
        fails = []
        run(numpy.random.RandomState(int(sys.argv[1]) if len(sys.argv) > 1 else 0), lambda name, cond, *info: cond or fails.append((name, info)), rounds=80)
        for f in fails[:12]:
            print('FAIL', f[0], json.dumps(f[1], default=str)[:600])
        print('AXIOMS-C06B failures=%d' % len(fails))
