"""Native replays for C11 (run under /venv/bin/python against $VERIF_REPO/src).

The abstract counter-models of the chain contracts (items of an uninterpreted sort) cannot be mapped to nutils objects, so the
replays SEARCH a small concrete family guided by the failed clause and say so: well-formed chains of child and edge
transforms of line/square/cube/triangle/tetrahedron references (all chains up to a length, then random longer ones).
"""
import itertools, random
import numpy


def _refs():
    from nutils import element
    line = element.LineReference()
    return [line, line**2, line**3, element.TriangleReference(), element.TetrahedronReference(), element.TriangleReference() * line]


def _steps(ref):
    """(transform item, reference it maps from) for every child and edge of ref"""
    out = [(t, r) for t, r in zip(ref.child_transforms, ref.child_refs) if r]
    if ref.ndims:
        out += [(t, r) for t, r in zip(ref.edge_transforms, ref.edge_refs) if r]
    return out


def chains(maxlen=2, nrandom=2500, seed=0):
    """well-formed chains: exhaustive up to maxlen items, plus random ones up to 7 items"""
    for ref in _refs():
        level = [((), ref)]
        for n in range(maxlen):
            nxt = []
            for chain, r in level:
                for t, r2 in _steps(r):
                    nxt.append((chain + (t,), r2))
            for chain, r in nxt:
                yield chain
            level = nxt if n + 1 < maxlen else []
    rng = random.Random(seed)
    refs = _refs()
    for _ in range(nrandom):
        r = rng.choice(refs)
        chain = ()
        for _ in range(rng.randint(2, 7)):
            st = _steps(r)
            if not st:
                break
            t, r = rng.choice(st)
            chain += (t,)
        yield chain


def same_map(c1, c2):
    from nutils import transform
    if not c1 and not c2:
        return True
    if not c1 or not c2:
        c = c1 or c2
        nd = c[-1].fromdims
        if c[0].todims != nd:
            return False
    else:
        nd = c1[-1].fromdims
        if c2[-1].fromdims != nd or c1[0].todims != c2[0].todims:
            return False
    pts = numpy.concatenate([numpy.zeros((1, nd)), numpy.eye(nd), numpy.full((1, nd), .25)])
    return numpy.allclose(transform.apply(c1, pts), transform.apply(c2, pts), atol=1e-12, rtol=0)


def wellformed(c):
    return all(a.fromdims == b.todims for a, b in zip(c, c[1:]))


def iscanonical(c):
    return all(b.swapdown(a) is None for a, b in zip(c, c[1:]))


def isuppermost(c):
    return all(a.swapup(b) is None for a, b in zip(c, c[1:]))


def _check_rewrite(which, chain):
    """returns None or a description of the violated clause"""
    from nutils import transform
    f = getattr(transform, which)
    try:
        r = f(chain)
    except Exception as e:
        return 'raises %s: %s' % (type(e).__name__, e)
    if not isinstance(r, tuple):
        return 'result is not a tuple'
    if len(r) != len(chain):
        return 'length %d -> %d' % (len(chain), len(r))
    if not wellformed(r):
        return 'result is not a well-formed chain: %r' % (r,)
    if not same_map(r, chain):
        return 'composed map differs: %r' % (r,)
    if which == 'canonical' and not iscanonical(r):
        return 'result is not canonical: %r' % (r,)
    if which == 'uppermost' and not isuppermost(r):
        return 'result is not uppermost: %r' % (r,)
    return None


def _check_promote(chain, ndims):
    from nutils import transform
    try:
        r = transform.promote(chain, ndims)
    except Exception as e:
        return 'raises %s: %s' % (type(e).__name__, e)
    j = next((k for k, t in enumerate(chain) if t.fromdims == ndims), None)
    if j is None:
        return None if tuple(r) == tuple(chain) else 'chain without an item of fromdims=%d was changed' % ndims
    if len(r) != len(chain):
        return 'length %d -> %d' % (len(chain), len(r))
    if not wellformed(r):
        return 'result is not a well-formed chain: %r' % (r,)
    if not same_map(r, chain):
        return 'composed map differs: %r' % (r,)
    if r[j].fromdims != ndims:
        return 'result[%d].fromdims = %d, expected %d' % (j, r[j].fromdims, ndims)
    if not iscanonical(r[:j + 1]):
        return 'head result[:%d] is not canonical: %r' % (j + 1, r)
    if not isuppermost(r[j + 1:]):
        return 'tail result[%d:] is not uppermost: %r' % (j + 1, r)
    return None


def run_rewrite(which, clause, budget=6000):
    print('searching well-formed chains of child/edge transforms for an input on which transform.%s violates its contract (failed clause: %s)' % (which, clause))
    n = 0
    for chain in chains():
        n += 1
        if n > budget:
            break
        if which == 'promote':
            for nd in sorted(set(t.fromdims for t in chain) | {chain[0].todims}):
                why = _check_promote(chain, nd)
                if why:
                    print('promote(%r, %d): %s' % (chain, nd, why))
                    print('REPLAY: VIOLATION-CONFIRMED')
                    return
        else:
            why = _check_rewrite(which, chain)
            if why:
                print('%s(%r): %s' % (which, chain, why))
                print('REPLAY: VIOLATION-CONFIRMED')
                return
    print('REPLAY: not reproduced on %d chains' % n)
