"""Native replays for C11 (run under /venv/bin/python against $VERIF_REPO/src).

The abstract counter-models of the chain contracts (items of an uninterpreted sort) cannot be mapped to nutils objects, so the
replays SEARCH a small concrete family guided by the failed clause and say so: well-formed chains of child and edge
transforms of line/square/cube/triangle/tetrahedron references (all chains up to a length, then random longer ones).
"""
import itertools, random
import numpy


def _refs():
    from nutils import element
    line = element.LineReference()
    return [line, line**2, line**3, element.TriangleReference(), element.TetrahedronReference(), element.TriangleReference() * line]


def _steps(ref):
    """(transform item, reference it maps from) for every child and edge of ref"""
    out = [(t, r) for t, r in zip(ref.child_transforms, ref.child_refs) if r]
    if ref.ndims:
        out += [(t, r) for t, r in zip(ref.edge_transforms, ref.edge_refs) if r]
    return out


def chains(maxlen=2, nrandom=2500, seed=0):
    """well-formed chains: exhaustive up to maxlen items, plus random ones up to 7 items"""
    for ref in _refs():
        level = [((), ref)]
        for n in range(maxlen):
            nxt = []
            for chain, r in level:
                for t, r2 in _steps(r):
                    nxt.append((chain + (t,), r2))
            for chain, r in nxt:
                yield chain
            level = nxt if n + 1 < maxlen else []
    rng = random.Random(seed)
    refs = _refs()
    for _ in range(nrandom):
        r = rng.choice(refs)
        chain = ()
        for _ in range(rng.randint(2, 7)):
            st = _steps(r)
            if not st:
                break
            t, r = rng.choice(st)
            chain += (t,)
        yield chain


def same_map(c1, c2):
    from nutils import transform
    if not c1 and not c2:
        return True
    if not c1 or not c2:
        c = c1 or c2
        nd = c[-1].fromdims
        if c[0].todims != nd:
            return False
    else:
        nd = c1[-1].fromdims
        if c2[-1].fromdims != nd or c1[0].todims != c2[0].todims:
            return False
    pts = numpy.concatenate([numpy.zeros((1, nd)), numpy.eye(nd), numpy.full((1, nd), .25)])
    return numpy.allclose(transform.apply(c1, pts), transform.apply(c2, pts), atol=1e-12, rtol=0)


def wellformed(c):
    return all(a.fromdims == b.todims for a, b in zip(c, c[1:]))


def iscanonical(c):
    return all(b.swapdown(a) is None for a, b in zip(c, c[1:]))


def isuppermost(c):
    return all(a.swapup(b) is None for a, b in zip(c, c[1:]))


def _check_rewrite(which, chain):
    """returns None or a description of the violated clause"""
    from nutils import transform
    f = getattr(transform, which)
    try:
        r = f(chain)
    except Exception as e:
        return 'raises %s: %s' % (type(e).__name__, e)
    if not isinstance(r, tuple):
        return 'result is not a tuple'
    if len(r) != len(chain):
        return 'length %d -> %d' % (len(chain), len(r))
    if not wellformed(r):
        return 'result is not a well-formed chain: %r' % (r,)
    if not same_map(r, chain):
        return 'composed map differs: %r' % (r,)
    if which == 'canonical' and not iscanonical(r):
        return 'result is not canonical: %r' % (r,)
    if which == 'uppermost' and not isuppermost(r):
        return 'result is not uppermost: %r' % (r,)
    return None


def _check_promote(chain, ndims):
    from nutils import transform
    try:
        r = transform.promote(chain, ndims)
    except Exception as e:
        return 'raises %s: %s' % (type(e).__name__, e)
    j = next((k for k, t in enumerate(chain) if t.fromdims == ndims), None)
    if j is None:
        return None if tuple(r) == tuple(chain) else 'chain without an item of fromdims=%d was changed' % ndims
    if len(r) != len(chain):
        return 'length %d -> %d' % (len(chain), len(r))
    if not wellformed(r):
        return 'result is not a well-formed chain: %r' % (r,)
    if not same_map(r, chain):
        return 'composed map differs: %r' % (r,)
    if r[j].fromdims != ndims:
        return 'result[%d].fromdims = %d, expected %d' % (j, r[j].fromdims, ndims)
    if not iscanonical(r[:j + 1]):
        return 'head result[:%d] is not canonical: %r' % (j + 1, r)
    if not isuppermost(r[j + 1:]):
        return 'tail result[%d:] is not uppermost: %r' % (j + 1, r)
    return None


def run_rewrite(which, clause, budget=6000):
    print('searching well-formed chains of child/edge transforms for an input on which transform.%s violates its contract (failed clause: %s)' % (which, clause))
    n = 0
    for chain in chains():
        n += 1
        if n > budget:
            break
        if which == 'promote':
            for nd in sorted(set(t.fromdims for t in chain) | {chain[0].todims}):
                why = _check_promote(chain, nd)
                if why:
                    print('promote(%r, %d): %s' % (chain, nd, why))
                    print('REPLAY: VIOLATION-CONFIRMED')
                    return
        else:
            why = _check_rewrite(which, chain)
            if why:
                print('%s(%r): %s' % (which, chain, why))
                print('REPLAY: VIOLATION-CONFIRMED')
                return
    print('REPLAY: not reproduced on %d chains' % n)


# ---------------------------------------------------------------------------------------------------------------------
# A-SWAP on the real item classes: exhaustive over a bounded family, exact rational arithmetic on the real matrices

def _frac(a):
    from fractions import Fraction
    a = numpy.asarray(a, dtype=float)
    if a.ndim == 1:
        return [Fraction(float(x)) for x in a]
    return [[Fraction(float(x)) for x in row] for row in a]


def _affine(t):
    return _frac(t.linear), _frac(t.offset)


def _compose(A, B):
    """(A after B): x -> LA (LB x + oB) + oA, exact"""
    (LA, oA), (LB, oB) = A, B
    n, k, m = len(LA), len(LB), (len(LB[0]) if LB else 0)
    L = [[sum(LA[i][p] * LB[p][j] for p in range(k)) for j in range(m)] for i in range(n)]
    o = [sum(LA[i][p] * oB[p] for p in range(k)) + oA[i] for i in range(n)]
    return L, o


def _defining_class(recv, method):
    for c in type(recv).__mro__:
        if method in c.__dict__:
            return c.__name__
    return None


def swap_pairs():
    """adjacent compatible pairs (a, b) of transform items: from all chains of the family, closed once under swapping"""
    seen, out = set(), []

    def add(a, b):
        if a.fromdims == b.todims and (a, b) not in seen:
            seen.add((a, b))
            out.append((a, b))
    for chain in chains(maxlen=3, nrandom=0):
        for a, b in zip(chain, chain[1:]):
            add(a, b)
    from nutils import transform, types
    for a, b in list(out):
        if type(a).__name__ == 'TensorChild' and isinstance(b, transform.Updim):
            add(a, transform.Updim(types.arraydata(b.linear), types.arraydata(b.offset), bool(b.isflipped)))  # a plain Updim with the same map
    k = 0
    while k < len(out) and len(out) < 20000:
        a, b = out[k]
        k += 1
        rs = []
        for f, x in ((b.swapdown, a), (a.swapup, b)):
            try:
                rs.append(f(x))
            except Exception:
                pass  # reported by check_swaps for the class that defines the method
        for r in rs:
            if r and isinstance(r, tuple) and len(r) == 2 and all(hasattr(t, 'todims') for t in r):
                add(*r)
                # neighbours a swapped item may meet next
                for (c, d) in list(out[:2000]):
                    if len(out) > 20000:
                        break
                    add(r[1], d) if r[1].fromdims == d.todims and d is not r[1] and k < 400 else None
    return out


def check_swaps(method, cls):
    """A-SWAP for `cls.method` (the class that DEFINES the method) over the family; prints BOUNDED-RESULT {json}"""
    import json
    fails, cases, swapped = [], 0, 0
    for a, b in swap_pairs():
        recv, arg = (b, a) if method == 'swapdown' else (a, b)
        if _defining_class(recv, method) != cls:
            continue
        cases += 1
        desc = '%s.%s(%r) for chain (%r, %r)' % (type(recv).__name__, method, arg, a, b)
        try:
            r = getattr(recv, method)(arg)
        except Exception as e:
            fails.append(dict(clause='returns-none-or-pair', what=desc + ' raises %s: %s' % (type(e).__name__, e)))
            continue
        if r is None:
            continue
        if not (isinstance(r, tuple) and len(r) == 2):
            fails.append(dict(clause='returns-none-or-pair', what=desc + ' returns %r' % (r,)))
            continue
        swapped += 1
        s0, s1 = r
        if not (s0.todims == a.todims and s1.fromdims == b.fromdims):
            fails.append(dict(clause='same-outer-dimensions', what=desc + ' -> %r' % (r,)))
            continue
        if s0.fromdims != s1.todims:
            fails.append(dict(clause='inner-dimensions-match', what=desc + ' -> %r' % (r,)))
            continue
        if not (recv.todims == recv.fromdims + 1 and arg.todims == arg.fromdims):
            fails.append(dict(clause='only-updim-receiver-and-square-argument-swap', what=desc))
        if not all(t.todims >= t.fromdims >= 0 for t in r):
            fails.append(dict(clause='same-outer-dimensions', what=desc + ' -> %r (todims < fromdims)' % (r,)))
        if _compose(_affine(s0), _affine(s1)) != _compose(_affine(a), _affine(b)):
            fails.append(dict(clause='same-composed-map', what=desc + ' -> %r' % (r,)))
        elif bool(getattr(s0, 'isflipped', False)) ^ bool(getattr(s1, 'isflipped', False)) != bool(getattr(a, 'isflipped', False)) ^ bool(getattr(b, 'isflipped', False)):
            fails.append(dict(clause='same-orientation', what=desc + ' -> %r' % (r,)))
    if swapped == 0:
        cases = 0  # a family in which the method never swaps exercises nothing
    print('%s.%s: %d adjacent pairs, %d swapped, %d failures' % (cls, method, cases, swapped, len(fails)))
    for f in fails[:3]:
        print('  ', f)
    print('BOUNDED-RESULT ' + json.dumps(dict(cases=cases, swapped=swapped, failures=fails[:20])))
    if fails:
        print('REPLAY: VIOLATION-CONFIRMED')


def chain_take():
    """pointsseq._Chain.take / elementseq._Chain.take on chained sequences with pairwise DISTINCT items, for every index array of
    length <= 4 (incl. unsorted and repeated indices): item k of the result is item indices[k] of the sequence."""
    import itertools, json, numpy
    from nutils import element, pointsseq, elementseq
    line = element.LineReference()
    pts = [line.getpoints('gauss', d) for d in (1, 3, 5, 7, 9)]
    refs = [line, line**2, line**3, element.TriangleReference(), element.TetrahedronReference()]
    cases, failures = 0, []
    for n1, n2 in ((1, 1), (2, 1), (1, 2), (2, 2), (3, 2)):
        n = n1 + n2
        pseq = pointsseq.PointsSequence.from_iter(pts[:n1], 1).chain(pointsseq.PointsSequence.from_iter(pts[n1:n], 1))
        for k in range(0, 5):
            for idx in itertools.product(range(n), repeat=k):
                cases += 1
                got = [p.npoints for p in pseq.take(numpy.array(idx, dtype=int))]
                want = [pts[i].npoints for i in idx]
                if got != want:
                    failures.append(dict(clause='points-take-keeps-the-order-of-the-indices', sizes=[n1, n2], indices=list(idx), got=got, want=want))
    # references of different dimension cannot share a sequence: use same-dimension distinct references
    sq, tri = line**2, element.TriangleReference()
    import nutils.element as el
    distinct = [sq, tri, el.WithChildrenReference(sq, tuple(sq.child_refs[:3]) + (sq.child_refs[3].empty,)), el.WithChildrenReference(tri, tuple(tri.child_refs[:2]) + (tri.child_refs[2].empty, tri.child_refs[3]))] if hasattr(sq, 'child_refs') else [sq, tri]
    for n1 in range(1, len(distinct)):
        n = len(distinct)
        rseq = elementseq.References.from_iter(distinct[:n1], 2).chain(elementseq.References.from_iter(distinct[n1:], 2))
        for k in range(0, 4):
            for idx in itertools.product(range(n), repeat=k):
                cases += 1
                got = [r for r in rseq.take(numpy.array(idx, dtype=int))]
                want = [distinct[i] for i in idx]
                if got != want:
                    failures.append(dict(clause='references-take-keeps-the-order-of-the-indices', split=n1, indices=list(idx)))
    print('BOUNDED-RESULT ' + json.dumps(dict(cases=cases, failures=failures[:10])))
    if failures:
        print('chain.take(%r) on a chain of %r items: %s' % (failures[0]['indices'], failures[0].get('sizes', failures[0].get('split')), failures[0]))
        print('REPLAY: VIOLATION-CONFIRMED take() of a chained sequence does not return item indices[k] at position k')
    else:
        print('REPLAY: not reproduced (%d cases)' % cases)


# ------------------------------------------------------------------ StructuredTransforms (contracts/c11_struct.py) --

def _structured(dims, vals, nrefine):
    """real StructuredTransforms from per-axis (i, j, mod); boundary axes are IntAxis (ibound = axis number, side False)"""
    from nutils import transformseq, transform
    axes = []
    for k, (d, (i, j, mod)) in enumerate(zip(dims, vals)):
        axes.append(transformseq.DimAxis(i, j, mod, False) if d else transformseq.IntAxis(i, j, mod, k, False))
    return transformseq.StructuredTransforms(transform.Index(len(dims), 0), tuple(axes), nrefine)


def _user_tails(seq, taillen):
    """user tails: chains of child transforms of the element reference (line**fromdims), all of them for short tails"""
    from nutils import element
    if taillen == 0:
        return [()]
    ref = element.LineReference()**seq.fromdims if seq.fromdims else element.PointReference()
    ct = list(ref.child_transforms)
    return [tuple(c) for c in itertools.product(ct, repeat=taillen)][:16]


def _roundtrip_fails(seq, i, tail):
    try:
        x = seq[i]
        k, t = seq.index_with_tail(x + tail)
    except Exception as e:
        return 'self[%d] / index_with_tail raised %s: %s' % (i, type(e).__name__, e)
    if k != i:
        return 'index_with_tail(self[%d] + tail) returned index %d' % (i, k)
    if t != tail and not (len(t) == len(tail) and same_map(t, tail)):
        return 'index_with_tail(self[%d] + tail) returned the tail %r for %r' % (i, t, tail)
    return None


def structured_roundtrip(dims, nrefine, taillen, model=None, budget=4000):
    """replay of a StructuredLookup counter-model (axis values + digits); if the model cannot be mapped to a failing input,
    search a small family of structured sequences of the same configuration."""
    dims = [bool(d) for d in dims]
    model = model or {}

    def num(k, default=None):
        try:
            return int(str(model[k]).replace('(', '').replace(')', '').replace(' ', ''))
        except Exception:
            return default
    vals = [(num('axis%d.i' % k), num('axis%d.j' % k), num('axis%d.mod' % k)) for k in range(len(dims))]
    digits = [num('digit%d' % k) for k in range(len(dims))]
    tried = 0
    if all(v is not None for t in vals for v in t) and all(d is not None for d in digits):
        lens = [j - i for i, j, m in vals]
        if all(0 < n <= 40 for n in lens) and all(0 <= d < n for d, n in zip(digits, lens)) and all(m == 0 or (m >= n) for (i, j, m), n in zip(vals, lens)):
            seq = _structured(dims, vals, nrefine)
            i = 0
            for d, n in zip(digits, lens):
                i = i * n + d
            for tail in _user_tails(seq, taillen):
                tried += 1
                msg = _roundtrip_fails(seq, i, tail)
                if msg:
                    print('StructuredTransforms axes=%r nrefine=%d: %s' % (vals, nrefine, msg))
                    print('REPLAY: VIOLATION-CONFIRMED lookup is not the inverse of element access (counter-model replayed)')
                    return False
    # search: the abstract model (uninterpreted Axis.map/unmap, child table) need not map to a failing input
    choices = [(0, 1, 0), (0, 2, 0), (1, 3, 0), (0, 3, 0), (2, 5, 0), (0, 2, 2), (0, 3, 3), (1, 3, 4), (2, 4, 6), (3, 6, 6), (-1, 2, 3)]
    for vals in itertools.product(choices, repeat=len(dims)):
        seq = _structured(dims, vals, nrefine)
        for tail in _user_tails(seq, taillen)[:4]:
            for i in range(len(seq)):
                tried += 1
                msg = _roundtrip_fails(seq, i, tail)
                if msg:
                    print('StructuredTransforms axes=%r nrefine=%d: %s' % (list(vals), nrefine, msg))
                    print('REPLAY: VIOLATION-CONFIRMED lookup is not the inverse of element access (found by searching a small family of structured sequences; the counter-model is abstract)')
                    return False
        if tried > budget:
            break
    print('REPLAY: not reproduced (%d structured lookups tried)' % tried)
    return True


def structured_foreign(what):
    """StructuredTransforms.index_with_tail must reject (ValueError) a chain that is too short / has a foreign root / a non-Index item
    where an Index is expected / a non-child item where a child transform is expected."""
    from nutils import transform, element
    seq = _structured([True, True], [(0, 4, 0), (1, 5, 0)], 1)
    x = seq[5]
    sq = element.LineReference()**2
    bad = {'short': x[:3], 'root': (transform.Index(2, 7),) + x[1:], 'non-index': x[:2] + (sq.child_transforms[0],) + x[3:],
           'non-child': x[:3] + (sq.edge_transforms[0],)}[what]
    try:
        r = seq.index_with_tail(bad)
    except ValueError:
        print('REPLAY: not reproduced (ValueError raised)')
        return True
    except Exception as e:
        print('index_with_tail raised %s instead of ValueError' % type(e).__name__)
        print('REPLAY: VIOLATION-CONFIRMED foreign chain (%s) not rejected with ValueError' % what)
        return False
    print('index_with_tail(%r) returned %r' % (bad, r))
    print('REPLAY: VIOLATION-CONFIRMED foreign chain (%s) accepted by StructuredTransforms.index_with_tail' % what)
    return False


# ------------------------------------------------- PlainTransforms / EmptyTransforms / base helpers (contracts/c11_plain.py) --

def _plain_families(seed=0, rounds=60):
    """PlainTransforms whose elements have heads of different lengths and shared items; the items are created in shuffled order so that
    the id() order (the sort key of the lookup table) varies"""
    from nutils import transformseq, transform, element
    rng = random.Random(seed)
    line = element.LineReference()
    ch = line.child_transforms
    base = rng.randrange(1000, 100000)
    for r in range(rounds):
        nroots = rng.randint(1, 4)
        ks = list(range(base + 10 * r, base + 10 * r + nroots))
        rng.shuffle(ks)
        roots = {k: transform.Index(1, k) for k in ks}  # creation order = shuffled
        elems = []
        for k in sorted(roots):
            shape = rng.choice(['plain', 'split', 'deep'])
            if shape == 'plain':
                elems.append((roots[k],))
            elif shape == 'split':
                elems += [(roots[k], ch[0]), (roots[k], ch[1])]
            else:
                elems += [(roots[k], ch[0]), (roots[k], ch[1], ch[0]), (roots[k], ch[1], ch[1])]
        rng.shuffle(elems)
        yield transformseq.PlainTransforms(tuple(elems), 1, 1), elems, ch


def plain_roundtrip(seed=0):
    from nutils import transform
    tried = 0
    for seq, elems, ch in _plain_families(seed):
        for i, e in enumerate(elems):
            for tail in [(), (ch[0],), (ch[1], ch[0])]:
                tried += 1
                try:
                    if seq[i] != e:
                        raise AssertionError('self[%d] is not transforms[%d]' % (i, i))
                    k, t = seq.index_with_tail(e + tail)
                    ok = k == i and t == tail
                    msg = 'index_with_tail(self[%d] + %r) == %r' % (i, tail, (k, t))
                except Exception as ex:
                    ok, msg = False, 'self[%d] / index_with_tail raised %s: %s' % (i, type(ex).__name__, ex)
                if not ok:
                    print('PlainTransforms(%r): %s' % (elems, msg))
                    print('REPLAY: VIOLATION-CONFIRMED PlainTransforms lookup is not the inverse of element access (found by searching a family of plain sequences)')
                    return False
        # foreign chains: a root that is not in the sequence, and a proper head of an element that is itself no element
        foreign = [(transform.Index(1, 5),), (transform.Index(1, 5), ch[0])]
        foreign += [e[:n] for e in elems for n in range(1, len(e)) if e[:n] not in elems and not any(e[:n][:len(f)] == f for f in elems)]
        for f in foreign:
            tried += 1
            try:
                r = seq.index_with_tail(f)
            except ValueError:
                continue
            except Exception as ex:
                r = 'raised %s' % type(ex).__name__
            print('PlainTransforms(%r).index_with_tail(%r): %r' % (elems, f, r))
            print('REPLAY: VIOLATION-CONFIRMED a chain none of whose heads is an element is not rejected with ValueError')
            return False
    print('REPLAY: not reproduced (%d plain lookups tried)' % tried)
    return True


def empty_transforms():
    from nutils import transformseq, transform
    e = transformseq.EmptyTransforms(2, 1)
    t = (transform.Index(2, 0),)
    fails = []

    def raises(f, exc):
        try:
            f()
        except exc:
            return True
        except Exception:
            return False
        return False
    if len(e) != 0:
        fails.append('len')
    for i in (0, -1, 3):
        if not raises(lambda: e[i], IndexError):
            fails.append('getitem(%d)' % i)
    if not raises(lambda: e.index_with_tail(t), ValueError):
        fails.append('index_with_tail')
    if not raises(lambda: e.index(t), ValueError):
        fails.append('index')
    if e.contains(t) is not False or e.contains_with_tail(t) is not False or (t in e):
        fails.append('contains')
    if fails:
        print('EmptyTransforms: wrong answer of %s' % ', '.join(fails))
        print('REPLAY: VIOLATION-CONFIRMED the empty sequence claims an element')
        return False
    print('REPLAY: not reproduced')
    return True


def base_helpers():
    """Transforms.index / contains / contains_with_tail against index_with_tail on real sequences"""
    from nutils import transformseq, transform, element
    line = element.LineReference()
    ch = line.child_transforms
    seqs = [transformseq.IndexTransforms(1, 3), transformseq.IndexTransforms(1, 3).refined(transformseq.References.uniform(line, 3)) if hasattr(transformseq, 'References') else None]
    seqs = [s for s in seqs if s is not None]
    seqs.append(transformseq.PlainTransforms(((transform.Index(1, 0),), (transform.Index(1, 1), ch[0])), 1, 1))
    tried = 0
    for seq in seqs:
        chains = [seq[i] + tail for i in range(len(seq)) for tail in [(), (ch[0],), (ch[1], ch[1])]] + [(transform.Index(1, 77),), (transform.Index(1, 1),)]
        for c in chains:
            tried += 1
            try:
                k, tail = seq.index_with_tail(c)
                found, exact = True, not tail
            except ValueError:
                found = exact = False
            try:
                idx = seq.index(c)
            except ValueError:
                idx = None
            bad = []
            if (idx is not None) != exact or (exact and idx != k):
                bad.append('index(%r) == %r' % (c, idx))
            if seq.contains(c) is not exact or (c in seq) is not exact:
                bad.append('contains(%r) == %r' % (c, seq.contains(c)))
            if seq.contains_with_tail(c) is not found:
                bad.append('contains_with_tail(%r) == %r' % (c, seq.contains_with_tail(c)))
            if bad:
                print('%r: %s but index_with_tail %s' % (seq, '; '.join(bad), 'returns (%r, %r)' % (k, tail) if found else 'raises ValueError'))
                print('REPLAY: VIOLATION-CONFIRMED index/contains disagree with index_with_tail')
                return False
    print('REPLAY: not reproduced (%d chains tried)' % tried)
    return True


# ------------------------------------------------------------------ locate (bounded native stand-in, contracts/C11.py LocateWithinTol) --

def locate_within_tol():
    """Topology.locate on small structured topologies (every shape in SHAPES, also one element wide in some direction) with separable
    geometries that are affine or strictly monotone NONLINEAR per direction: for targets that are images of known interior points,
    locate(tol=1e-10) either raises LocateError or returns, in input order, points whose images are within 1e-8 of the targets."""
    import json
    from nutils import mesh, function
    from nutils.topology import LocateError
    SHAPES = [(1,), (2,), (3,), (1, 1), (2, 1), (1, 2), (3, 1), (1, 3), (2, 2), (1, 2, 1), (2, 1, 1)]
    maps = {'x': lambda x: x, '2x+1': lambda x: 2 * x + 1, 'x^2': lambda x: x**2, 'x+x^3/8': lambda x: x + x**3 / 8}
    fracs = (0.3, 0.81)
    cases, failures = 0, []
    for shape in SHAPES:
        nd = len(shape)
        topo, x = mesh.rectilinear([numpy.linspace(1, 2, n + 1) for n in shape])
        # targets: every element, two interior points (local fractions), listed in an order that is NOT the element order
        pts = []
        for ielem in itertools.product(*[range(n) for n in shape]):
            for f in fracs:
                pts.append([1 + (i + (f if k % 2 == 0 else 1 - f)) / n for k, (i, n) in enumerate(zip(ielem, shape))])
        pts = numpy.array(pts[::-1])
        for names in itertools.product(maps, repeat=nd):
            if sum(nm not in ('x', '2x+1') for nm in names) > 1:
                continue  # at most one nonlinear direction
            geom = numpy.stack([maps[nm](x[k]) for k, nm in enumerate(names)])
            targets = numpy.stack([maps[nm](pts[:, k]) for k, nm in enumerate(names)], axis=1)
            cases += 1
            try:
                smp = topo.locate(geom, targets, tol=1e-10)
            except LocateError:
                continue
            got = smp.eval(geom)
            if got.shape != targets.shape:
                failures.append(dict(clause='located-points-map-to-the-targets-in-input-order', shape=list(shape), geometry=list(names), got_shape=list(got.shape)))
                continue
            err = float(abs(got - targets).max())
            if not err <= 1e-8:
                k = int(abs(got - targets).max(axis=1).argmax())
                failures.append(dict(clause='located-points-map-to-the-targets-in-input-order', shape=list(shape), geometry=list(names),
                                     target=targets[k].tolist(), image_of_returned_point=got[k].tolist(), error=err))
    print('BOUNDED-RESULT ' + json.dumps(dict(cases=cases, failures=failures[:10])))
    if failures:
        f = failures[0]
        print('locate on mesh.rectilinear with shape %r, geometry %r, tol=1e-10: %s' % (f['shape'], f['geometry'], f))
        print('REPLAY: VIOLATION-CONFIRMED locate() returned a point whose image is not within the tolerance of its target (and did not raise)')
    else:
        print('REPLAY: not reproduced (%d cases)' % cases)
