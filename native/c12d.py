"""C12 second round, parts 3 and 4: bounded native checks of the REAL nutils code (ground tables and small structured topologies).

edge_dofs()        element.get_edge_dofs of line / triangle / tetrahedron / square / cube / prism, degree 1..3, against the real
                   coefficient tables (bernstein and lagrange): the edge dofs are exactly the local functions that do not vanish on the edge
c0_merge(family)   TransformChainsTopology._basis_c0_structured on 1-D / 2-D structured topologies (periodic or not), degree 1..3:
                   two local functions get the same dof exactly when their Lagrange nodes coincide (modulo the period)
spline_dofs()      StructuredTopology._basis_spline: integer bookkeeping of the dof numbering, periodic wrap-around included, and the
                   multiplicity-expanded local knot vectors handed to _localsplinebasis
"""
import itertools, json, numpy


def _refs():
    from nutils import element
    line, tri, tet = element.LineReference(), element.TriangleReference(), element.TetrahedronReference()
    return [('line', line), ('triangle', tri), ('tetrahedron', tet), ('square', line * line), ('cube', line * line * line), ('prism', tri * line)]


def _nonvanishing_on_edge(ref, basis, degree, iedge):
    import nutils_poly as poly
    c = numpy.asarray(ref.get_poly_coeffs(basis, degree=degree))
    eref = ref.edge_refs[iedge]
    pts = numpy.asarray(eref.getpoints('bezier', degree + 1).coords)  # lattice of order `degree` on the edge: unisolvent for degree-p traces
    x = ref.edge_transforms[iedge].apply(pts)
    vals = numpy.array([poly.eval(c, xi) for xi in x])  # npoints x ndofs
    scale = max(1., numpy.abs(c).max())
    return [i for i in range(c.shape[0]) if numpy.abs(vals[:, i]).max() > 1e-9 * scale]


def edge_dofs(kind=None):
    cases, failures = 0, []
    for name, ref in _refs():
        if kind is not None and (name in ('line', 'triangle', 'tetrahedron')) != (kind == 'simplex'):
            continue
        for degree in (1, 2, 3):
            for iedge in range(ref.nedges):
                try:
                    got = [int(d) for d in ref.get_edge_dofs(degree, iedge)]
                except Exception as e:
                    failures.append(dict(clause='edge-dofs-are-the-functions-not-vanishing-on-the-edge', ref=name, degree=degree, iedge=iedge, raised='%s: %s' % (type(e).__name__, e)))
                    continue
                for basis in ('bernstein', 'lagrange'):
                    cases += 1
                    want = _nonvanishing_on_edge(ref, basis, degree, iedge)
                    if sorted(got) != want:
                        failures.append(dict(clause='edge-dofs-are-the-functions-not-vanishing-on-the-edge', ref=name, basis=basis, degree=degree, iedge=iedge, returned=got, expected=want))
                if any(a >= b for a, b in zip(got, got[1:])):
                    failures.append(dict(clause='edge-dofs-strictly-increasing', ref=name, degree=degree, iedge=iedge, returned=got))
            # both sides of an interface list matching functions in matching order only if the lists have equal lengths per edge type
            if name in ('square', 'cube', 'prism'):
                for bad in (-1, ref.nedges):
                    cases += 1
                    try:
                        r = ref.get_edge_dofs(degree, bad)
                        failures.append(dict(clause='edge-index-out-of-range-rejected', ref=name, degree=degree, iedge=bad, returned=[int(d) for d in r]))
                    except IndexError:
                        pass
                    except Exception as e:
                        failures.append(dict(clause='edge-index-out-of-range-rejected', ref=name, degree=degree, iedge=bad, raised=type(e).__name__))
    _finish('get_edge_dofs', cases, failures)


def _finish(what, cases, failures):
    print('BOUNDED-RESULT ' + json.dumps(dict(cases=cases, failures=failures[:10])))
    if failures:
        print('REPLAY: VIOLATION-CONFIRMED %s: %s' % (what, failures[0]))
    else:
        print('REPLAY: not reproduced (%d cases)' % cases)


def _lagrange_nodes(ref, degree):
    """the lattice point of every local function: where the Lagrange function of the same index equals one (uses get_poly_coeffs only)"""
    import nutils_poly as poly
    c = numpy.asarray(ref.get_poly_coeffs('lagrange', degree=degree))
    pts = [numpy.array(p, dtype=float) / degree for p in itertools.product(range(degree + 1), repeat=ref.ndims)]
    vals = numpy.array([poly.eval(c, p) for p in pts])
    out = []
    for i in range(c.shape[0]):
        hits = [k for k in range(len(pts)) if abs(vals[k, i] - 1) < 1e-9 and numpy.abs(numpy.delete(vals[k], i)).max(initial=0) < 1e-9]
        assert len(hits) == 1
        out.append(pts[hits[0]])
    return out


C0_FAMILY = [([1], []), ([2], []), ([3], []), ([4], []), ([1], [0]), ([2], [0]), ([3], [0]), ([4], [0]),
             ([1, 1], []), ([2, 2], []), ([3, 2], []), ([1, 3], [0]), ([3, 1], [0]), ([3, 3], [0]), ([3, 3], [0, 1]), ([2, 3], [1]), ([2, 2], [0]), ([2, 3], [0]), ([3, 2], [0, 1])]


def c0_merge(two_element_periodic):
    """two_element_periodic=False: the family without a periodic direction of exactly two elements; True: only those"""
    from nutils import mesh
    cases, failures = 0, []
    for shape, per in C0_FAMILY:
        has2 = any(shape[i] == 2 for i in per)
        if has2 != two_element_periodic:
            continue
        dom, geom = mesh.rectilinear(shape, periodic=per)
        for btype in ('lagrange', 'bernstein'):
            for degree in (1, 2, 3):
                cases += 1
                desc = dict(shape=shape, periodic=per, basis=btype, degree=degree)
                try:
                    b = dom.basis(btype, degree=degree)
                    dofs = [[int(d) for d in b.get_dofs(e)] for e in range(len(dom))]
                except Exception as e:
                    failures.append(dict(desc, clause='coinciding-nodes-share-one-dof', raised='%s: %s' % (type(e).__name__, e)))
                    continue
                at = {}
                for e in range(len(dom)):
                    base = numpy.array(numpy.unravel_index(e, shape), dtype=float)
                    for i, p in enumerate(_lagrange_nodes(dom.references[e], degree)):
                        x = base + p
                        key = tuple(int(round(xi * degree)) % (shape[k] * degree) if k in per else int(round(xi * degree)) for k, xi in enumerate(x))
                        at.setdefault(key, set()).add(dofs[e][i])
                split = {str(k): sorted(v) for k, v in at.items() if len(v) > 1}
                if split:
                    failures.append(dict(desc, clause='coinciding-nodes-share-one-dof', nodes_with_several_dofs=dict(list(split.items())[:3])))
                seen = {}
                shared = []
                for k, v in at.items():
                    for d in v:
                        if d in seen and seen[d] != k:
                            shared.append((d, str(seen[d]), str(k)))
                        seen[d] = k
                if shared:
                    failures.append(dict(desc, clause='distinct-nodes-have-distinct-dofs', dof_at_two_nodes=shared[:3]))
                if sorted(seen) != list(range(b.ndofs)):
                    failures.append(dict(desc, clause='dofs-are-exactly-range-ndofs', ndofs=int(b.ndofs), used=sorted(seen)[:12]))
    _finish('_basis_c0_structured', cases, failures)


# ------------------------------------------------------------------------------------------------ splines (part 4)

def _spline_expected(n, p, m, periodic):
    """INTEGER bookkeeping of a 1-D spline basis of degree p on n elements with knot multiplicities m (len n+1), as the property states it:
    element e touches the p+1 consecutive dofs starting at (number of knots, with multiplicity, strictly before its left knot, minus the
    clamping shift); for a periodic axis the numbers are taken modulo the period nd = sum(m[:n])."""
    m = list(m)
    if periodic and not (m[0] == m[n] == p + 1):
        nd = sum(m[:n])
        start = [sum(m[1:e + 1]) for e in range(n)]
        return nd, [[(s + k) % nd for k in range(p + 1)] for s in start]
    m[0] = m[-1] = p
    nd = sum(m[:n]) + 1
    start = [sum(m[:e + 1]) - m[0] for e in range(n)]
    return nd, [[s + k for k in range(p + 1)] for s in start]


def _expanded_knots(k, m, n, p, periodic):
    """the multiplicity-expanded knot vector around each element: 2p knots = p to the left (incl. the left knot of the element, counted
    with multiplicity from the right) and p to the right; periodic axes wrap around with the period added / subtracted"""
    k, m = [float(x) for x in k], list(m)
    if periodic and not (m[0] == m[n] == p + 1):
        period = k[n] - k[0]
        km = lambda j: k[j % n] + period * (j // n)   # knot value of (possibly wrapped) knot index j
        mm = lambda j: m[j % n]
    else:
        m[0] = m[-1] = p
        km = lambda j: k[j]
        mm = lambda j: m[j]
    out = []
    for e in range(n):
        left, j = [], e
        while len(left) < p:
            left = [km(j)] * min(mm(j), p - len(left)) + left
            j -= 1
        right, j = [], e + 1
        while len(right) < p:
            right = right + [km(j)] * min(mm(j), p - len(right))
            j += 1
        out.append(left + right)
    return out


def spline_cases():
    for p in (1, 2, 3):
        for n in (1, 2, 3, 4):
            for per in (False, True):
                inner = [range(1, p + 2)] * (n - 1)
                ends = range(1, p + 2) if per else [p]
                for m0 in ends:
                    for mi in itertools.product(*inner):
                        m = [m0] + list(mi) + [m0]
                        for kv in ([float(i) for i in range(n + 1)], [float(i * i + i) / 2 for i in range(n + 1)]):
                            yield p, n, per, m, kv


def spline_dofs():
    from nutils import mesh
    cases, failures = 0, []
    captured = []
    from nutils import topology
    orig = topology.StructuredTopology._localsplinebasis

    def spy(lknots):
        captured.append([float(x) for x in lknots])
        return orig(lknots)
    topology.StructuredTopology._localsplinebasis = staticmethod(spy)
    try:
        for p, n, per, m, kv in spline_cases():
            cases += 1
            desc = dict(degree=p, nelems=n, periodic=per, knotmultiplicities=m, knotvalues=kv)
            dom, geom = mesh.rectilinear([n], periodic=[0] if per else [])
            del captured[:]
            try:
                b = dom.basis('spline', degree=p, knotvalues=kv, knotmultiplicities=m)
                got = [[int(d) for d in b.get_dofs(e)] for e in range(n)]
                nd = int(b.ndofs)
            except Exception as e:
                failures.append(dict(desc, clause='element-touches-p+1-consecutive-dofs-modulo-the-period', raised='%s: %s' % (type(e).__name__, e)))
                continue
            wnd, want = _spline_expected(n, p, m, per)
            if nd != wnd:
                failures.append(dict(desc, clause='number-of-dofs', returned=nd, expected=wnd))
            if got != want:
                failures.append(dict(desc, clause='element-touches-p+1-consecutive-dofs-modulo-the-period', returned=got, expected=want))
            if any(d < 0 or d >= nd for ds in got for d in ds):
                failures.append(dict(desc, clause='dofs-in-range', returned=got, ndofs=nd))
            st, sp = [int(x) for x in b._start_dofs[0]], [int(x) for x in b._stop_dofs[0]]
            if not (len(st) == len(sp) == n >= 1 and all(a <= c for a, c in zip(st, st[1:])) and all(a <= c for a, c in zip(sp, sp[1:])) and st[0] >= 0 and sp[-1] >= nd >= 1
                    and all(c - a == p + 1 for a, c in zip(st, sp)) and tuple(b._dofs_shape) == (nd,) and tuple(b._transforms_shape) == (n,)):
                failures.append(dict(desc, clause='tables-satisfy-the-invariant-assumed-for-StructuredBasis', start_dofs=st, stop_dofs=sp, ndofs=nd))
            sup = [[int(e) for e in b.get_support(d)] for d in range(nd)]
            inv = [[e for e in range(n) if d in got[e]] for d in range(nd)]
            if sup != inv:
                failures.append(dict(desc, clause='support-is-the-inverse-of-the-dof-lists', returned=sup, expected=inv))
            # every local knot vector handed to _localsplinebasis must be one of the multiplicity-expanded vectors (up to translation: the
            # local basis only depends on knot differences; the code caches by normalised differences)
            wantk = _expanded_knots(kv, m, n, p, per)
            norm = lambda v: [round(x - v[0], 9) for x in v]
            allowed = [norm(v) for v in wantk]
            badk = [v for v in captured if norm(v) not in allowed]
            if badk:
                failures.append(dict(desc, clause='local-knot-vectors-are-multiplicity-expanded', handed_to_localsplinebasis=badk[:2], expected_one_of=wantk))
    finally:
        topology.StructuredTopology._localsplinebasis = orig
    _finish('_basis_spline', cases, failures)


def discont_partition():
    """Basis.discontinuous_at_partition_interfaces(part_indices) on small 1-D and 2-D meshes, for EVERY assignment of the elements to
    <= 3 parts (also descending and gapped part numbers): the new dofs are in bijection with the distinct (part, parent dof) pairs,
    element dofs are the images of the parent element dofs, coefficients are the parent's, get_support is the inverse of get_dofs and
    every support lies inside one part (BOUNDED native enumeration)."""
    import itertools, json, numpy
    from nutils import mesh
    cases, failures = 0, []

    def fail(clause, **kw):
        failures.append(dict(clause=clause, **kw))
    for shape, btype, degree in (((3,), 'std', 1), ((4,), 'std', 1), ((3,), 'std', 2), ((3,), 'spline', 2), ((2, 2), 'std', 1)):
        dom, geom = mesh.rectilinear([numpy.linspace(0, 1, n + 1) for n in shape])
        parent = dom.basis(btype, degree=degree)
        nel = len(dom)
        pdofs = [parent.get_dofs(e).tolist() for e in range(nel)]
        for parts in itertools.product((0, 1, 3), repeat=nel):
            cases += 1
            what = dict(mesh=list(shape), basis=btype, degree=degree, parts=list(parts))
            try:
                b = parent.discontinuous_at_partition_interfaces(numpy.array(parts))
            except Exception as e:
                fail('dofs-are-the-distinct-(part,parent-dof)-pairs', error='%s: %s' % (type(e).__name__, str(e)[:100]), **what)
                continue
            pairs = sorted({(p, d) for e, p in enumerate(parts) for d in pdofs[e]})
            if b.ndofs != len(pairs):
                fail('dofs-are-the-distinct-(part,parent-dof)-pairs', ndofs=int(b.ndofs), expected=len(pairs), **what)
                continue
            newdofs = [b.get_dofs(e).tolist() for e in range(nel)]
            seen = {}
            ok = True
            for e, p in enumerate(parts):
                if len(newdofs[e]) != len(pdofs[e]):
                    ok = False
                    break
                for nd, d in zip(newdofs[e], pdofs[e]):
                    if seen.setdefault(nd, (p, d)) != (p, d) or not 0 <= nd < b.ndofs:
                        ok = False
            if not ok or len(seen) != len(pairs):
                fail('dofs-are-the-distinct-(part,parent-dof)-pairs', newdofs=newdofs, **what)
                continue
            for e in range(nel):
                if not numpy.array_equal(numpy.asarray(b.get_coefficients(e)), numpy.asarray(parent.get_coefficients(e))):
                    fail('coefficients-are-the-parents', element=e, **what)
                    break
            for nd, (p, d) in seen.items():
                supp = b.get_support(nd).tolist()
                want = [e for e in range(nel) if nd in newdofs[e]]
                if supp != want:
                    fail('support-is-the-inverse-of-the-dof-lists', dof=nd, support=supp, expected=want, **what)
                    break
                if any(parts[e] != p for e in supp):
                    fail('support-lies-inside-one-part', dof=nd, support=supp, **what)
                    break
    print('BOUNDED-RESULT ' + json.dumps(dict(cases=cases, failures=failures[:10])))
    if failures:
        print('discontinuous_at_partition_interfaces: %s' % failures[0])
        print('REPLAY: VIOLATION-CONFIRMED the partition-discontinuous basis does not have one dof per (part, parent dof) pair')
    else:
        print('REPLAY: not reproduced (%d cases)' % cases)
