"""Cross-check of the n-d denotations assumed by contracts/c01_nd.py (CONSTRUCTORS) against the real evaluable nodes
(called from native/axioms.py:run): every element of the evaluated node equals the index formula of the model."""
import itertools, warnings
import numpy


def run(check, rng, n):
    warnings.simplefilter('ignore')
    from nutils import evaluable as ev

    def arg(name, shape):
        return ev.Argument(name, tuple(ev.constant(int(k)) for k in shape), int), rng.randint(-9, 10, size=shape)

    def val(node, **args):
        return numpy.asarray(ev.eval_once(node, _simplify=False, _optimize=False, arguments=args))
    a, b, c = (int(x) for x in rng.randint(1, 4, size=3))
    F, Fv = arg('F', (a, b, c))
    R = val(ev.Ravel(F), F=Fv)
    check('c01-nd-Ravel', R.shape == (a, b * c) and all(R[i, k] == Fv[i, k // c, k % c] for i in range(a) for k in range(b * c)), Fv)
    G, Gv = arg('G', (a, b * c))
    U = val(ev.Unravel(G, ev.constant(b), ev.constant(c)), G=Gv)
    check('c01-nd-Unravel', U.shape == (a, b, c) and all(U[i, j, k] == Gv[i, j * c + k] for i in range(a) for j in range(b) for k in range(c)), Gv)
    for axes in itertools.permutations(range(3)):
        if axes != (0, 1, 2):
            T = val(ev.Transpose(F, axes), F=Fv)
            ok = T.shape == tuple(Fv.shape[x] for x in axes)
            for idx in itertools.product(*[range(k) for k in T.shape]):
                src = [None] * 3
                for i, x in enumerate(axes):
                    src[x] = idx[i]
                ok = ok and T[idx] == Fv[tuple(src)]
            check('c01-nd-Transpose', ok, axes)
    H, Hv = arg('H', (a, b, b))
    D = val(ev.TakeDiag(H), H=Hv)
    check('c01-nd-TakeDiag', D.shape == (a, b) and all(D[i, k] == Hv[i, k, k] for i in range(a) for k in range(b)), Hv)
    I = val(ev.InsertAxis(F, ev.constant(2)), F=Fv)
    check('c01-nd-InsertAxis', I.shape == (a, b, c, 2) and all((I[..., k] == Fv).all() for k in range(2)), Fv)
    J, Jv = ev.Argument('J', (ev.constant(2), ev.constant(3)), int), rng.randint(0, c, size=(2, 3))
    K = val(ev.Take(F, J), F=Fv, J=Jv)
    check('c01-nd-Take', K.shape == (a, b, 2, 3) and all(K[i, j, p, q] == Fv[i, j, Jv[p, q]] for i in range(a) for j in range(b) for p in range(2) for q in range(3)), Jv)
    dm = rng.randint(0, 4, size=(b, c))
    L = val(ev.Inflate(F, ev.constant(dm), ev.constant(4)), F=Fv)
    check('c01-nd-Inflate', L.shape == (a, 4) and all(L[i, k] == sum(Fv[i, p, q] for p in range(b) for q in range(c) if dm[p, q] == k) for i in range(a) for k in range(4)), dm)
    x = int(rng.randint(-4, 5))
    p, q = int(rng.randint(0, 4)), int(rng.randint(0, 4))
    check('c01-int-power-laws', (x ** p) ** q == x ** (p * q) and (p * q % 2 or abs(x) ** (p * q) == x ** (p * q)), x, p, q)
