"""Native replay for C20."""


def table(opname, expected, registered):
    from nutils import SI, function, sample, topology
    import numpy, operator
    print('callable %s: expected handler %s, registered handler(s) %s' % (opname, expected, registered))
    # demonstrate with a concrete computation where possible
    L, T = SI.Length('2m'), SI.Time('4s')
    try:
        f = eval(opname)
    except Exception:
        f = None
    demo = {'__mul_like': lambda: type(f(L, T)) == (SI.Length * SI.Time), '__div_like': lambda: type(f(L, T)) == (SI.Length / SI.Time),
            '__add_like': lambda: type(f(L, L)) == SI.Length}
    ok = None
    try:
        if expected in demo and f is not None:
            ok = demo[expected]()
    except Exception as e:
        ok = False
        print('calling it raised', type(e).__name__, e)
    if ok is False or ok is None:
        print('REPLAY: VIOLATION-CONFIRMED the dispatch table does not route %s to %s' % (opname, expected))
    else:
        print('REPLAY: not reproduced by the sample computation')


def call_check():
    from nutils import SI
    bad = [(SI.Length, '5'), (SI.Time, '7.5'), (SI.Velocity, '2m/5cm'), (SI.Length, '3s'), (SI.Dimensionless, '5m')]
    good = [(SI.Length, '5m', SI.Length), (SI.Velocity, '8km/h', SI.Velocity), (SI.Dimensionless, '5', float), (SI.Dimensionless, '2m/5cm', float)]
    for cls, s in bad:
        try:
            q = cls(s)
        except SI.DimensionError:
            continue
        print('%s(%r) was accepted and returned %r of type %s' % (cls.__name__, s, q, type(q).__name__))
        print('REPLAY: VIOLATION-CONFIRMED a quantity of the wrong dimension is accepted')
        return
    for cls, s, t in good:
        try:
            q = cls(s)
        except Exception as e:
            print('%s(%r) raised %s' % (cls.__name__, s, type(e).__name__))
            print('REPLAY: VIOLATION-CONFIRMED a quantity of the right dimension is rejected')
            return
        if type(q) != t:
            print('%s(%r) has type %s' % (cls.__name__, s, type(q).__name__))
            print('REPLAY: VIOLATION-CONFIRMED')
            return
    print('REPLAY: not reproduced')
