"""Native replay for C20."""


def table(opname, expected, registered):
    from nutils import SI, function, sample, topology
    import numpy, operator
    print('callable %s: expected handler %s, registered handler(s) %s' % (opname, expected, registered))
    # demonstrate with a concrete computation where possible
    L, T = SI.Length('2m'), SI.Time('4s')
    try:
        f = eval(opname)
    except Exception:
        f = None
    demo = {'__mul_like': lambda: type(f(L, T)) == (SI.Length * SI.Time), '__div_like': lambda: type(f(L, T)) == (SI.Length / SI.Time),
            '__add_like': lambda: type(f(L, L)) == SI.Length}
    ok = None
    try:
        if expected in demo and f is not None:
            ok = demo[expected]()
    except Exception as e:
        ok = False
        print('calling it raised', type(e).__name__, e)
    if ok is False or ok is None:
        print('REPLAY: VIOLATION-CONFIRMED the dispatch table does not route %s to %s' % (opname, expected))
    else:
        print('REPLAY: not reproduced by the sample computation')


def call_check():
    from nutils import SI
    bad = [(SI.Length, '5'), (SI.Time, '7.5'), (SI.Velocity, '2m/5cm'), (SI.Length, '3s'), (SI.Dimensionless, '5m')]
    good = [(SI.Length, '5m', SI.Length), (SI.Velocity, '8km/h', SI.Velocity), (SI.Dimensionless, '5', float), (SI.Dimensionless, '2m/5cm', float)]
    for cls, s in bad:
        try:
            q = cls(s)
        except SI.DimensionError:
            continue
        print('%s(%r) was accepted and returned %r of type %s' % (cls.__name__, s, q, type(q).__name__))
        print('REPLAY: VIOLATION-CONFIRMED a quantity of the wrong dimension is accepted')
        return
    for cls, s, t in good:
        try:
            q = cls(s)
        except Exception as e:
            print('%s(%r) raised %s' % (cls.__name__, s, type(e).__name__))
            print('REPLAY: VIOLATION-CONFIRMED a quantity of the right dimension is rejected')
            return
        if type(q) != t:
            print('%s(%r) has type %s' % (cls.__name__, s, type(q).__name__))
            print('REPLAY: VIOLATION-CONFIRMED')
            return
    print('REPLAY: not reproduced')


# ---- operator methods and protocol fall-backs (contracts/C20_ops.py) ---------------------------------------------------

def _expect_raise(what, f, exc=TypeError):
    try:
        r = f()
    except exc:
        return True
    except Exception as e:
        print('%s raised %s instead of %s' % (what, type(e).__name__, exc.__name__))
        return False
    print('%s returned %r (type %s) instead of raising %s' % (what, r, type(r).__name__, exc.__name__))
    return False


def fallback_check():
    """Unregistered numpy functions / ufunc methods on a Quantity must raise; registered ones keep inputs and kwargs."""
    import numpy
    from nutils import SI, function
    q = SI.Length.wrap(numpy.array([1., 2., 3.]))
    t = SI.Time.wrap(numpy.array([1., 2., 4.]))
    ok = True
    ok &= _expect_raise('numpy.sin(q) [unregistered ufunc]', lambda: numpy.sin(q))
    ok &= _expect_raise('numpy.exp(q) [unregistered ufunc]', lambda: numpy.exp(q))
    ok &= _expect_raise('numpy.add.reduce(q) [ufunc method other than __call__]', lambda: numpy.add.reduce(q))
    ok &= _expect_raise('numpy.multiply.outer(q, q)', lambda: numpy.multiply.outer(q, q))
    ok &= _expect_raise('numpy.cumsum(q) [unregistered array function]', lambda: numpy.cumsum(q))
    ok &= _expect_raise('numpy.sort(q) [unregistered array function]', lambda: numpy.sort(q))
    try:
        r = numpy.add(q, q)
        if type(r) != SI.Length or r.unwrap().tolist() != [2., 4., 6.]:
            print('numpy.add(q, q) =', r)
            ok = False
        r = numpy.multiply(q, t)
        if type(r) != SI.Length * SI.Time:
            print('numpy.multiply(q, t) has type', type(r).__name__)
            ok = False
        m = SI.Length.wrap(numpy.arange(6.).reshape(2, 3))
        r = numpy.sum(m, axis=0)
        if type(r) != SI.Length or r.unwrap().tolist() != [3., 5., 7.]:
            print('numpy.sum(m, axis=0) =', r, '(keyword arguments lost?)')
            ok = False
        r = numpy.add(q, q, where=numpy.array([True, False, True]), out=numpy.zeros(3))
        if type(r) != SI.Length or r.unwrap().tolist() != [2., 0., 6.]:
            print('numpy.add(q, q, where=..., out=...) =', r, '(keyword arguments lost?)')
            ok = False
        from nutils import mesh
        dom, geom = mesh.unitsquare(2, 'square')
        r = function.mean(SI.Length.wrap(geom[0]))  # @nutils_dispatch but unregistered: the original runs on the still-wrapped quantity
        if type(r) != SI.Length:
            print('function.mean(length) has type', type(r).__name__)
            ok = False
        r = function.grad(SI.Mass.wrap(geom[0]), SI.Length.wrap(geom))
        if type(r) != SI.Mass / SI.Length:
            print('function.grad(mass, length) has type', type(r).__name__)
            ok = False
    except Exception as e:
        print('a registered function failed: %s: %s' % (type(e).__name__, e))
        ok = False
    print('REPLAY: not reproduced' if ok else 'REPLAY: VIOLATION-CONFIRMED a numpy/nutils function on a Quantity is not routed through the registered dimension rule')


def operators_check():
    """Every operator of Quantity follows the rule of the same operator; DimensionError only becomes TypeError."""
    import operator
    from nutils import SI
    L, T = SI.Length.wrap(6.), SI.Time.wrap(2.)
    ok = True

    def same(what, got, typ, val):
        nonlocal ok
        if type(got) != typ or (got.unwrap() if isinstance(got, SI.Quantity) else got) != val:
            print('%s = %r of type %s, expected %r of type %s' % (what, got, type(got).__name__, val, typ.__name__))
            ok = False
    try:
        same('L+L', L + L, SI.Length, 12.)
        same('L-L/3', L - L / 3, SI.Length, 4.)
        same('L*T', L * T, SI.Length * SI.Time, 12.)
        same('2*L', 2 * L, SI.Length, 12.)
        same('L*2', L * 2, SI.Length, 12.)
        same('L/T', L / T, SI.Length / SI.Time, 3.)
        same('12/L', 12 / L, SI.Length**-1, 2.)
        same('L**2', L**2, SI.Length**2, 36.)
        same('L%T-like: L%L', L % SI.Length.wrap(4.), SI.Length, 2.)
        same('-L', -L, SI.Length, -6.)
        same('+L', +L, SI.Length, 6.)
        same('abs(-L)', abs(-L), SI.Length, 6.)
        same('L<2L', L < 2 * L, bool, True)
        same('L<=L', L <= L, bool, True)
        same('L>2L', L > 2 * L, bool, False)
        same('L>=2L', L >= 2 * L, bool, False)
        same('L>=L', L >= L, bool, True)
        same('L>L', L > L, bool, False)
        same('L<L', L < L, bool, False)
        same('L==L', L == L, bool, True)
        same('L!=L', L != L, bool, False)
        import numpy
        A = SI.Length.wrap(numpy.array([1., 2.]))
        same('A@A', A @ A, SI.Length**2, 5.)
        same('A[1]', A[1], SI.Length, 2.)
        B = SI.Length.wrap(numpy.array([1., 2.]))
        B[0] = SI.Length.wrap(5.)
        same('B[0] after B[0]=5m', B[0], SI.Length, 5.)
        same('[1,2]@A', numpy.array([1., 2.]) @ A if False else A.__rmatmul__(numpy.array([1., 2.])), SI.Length, 5.)
        same('L.__rsub__(4L)', L.__rsub__(4 * L), SI.Length, 18.)
        same('L.__radd__(L)', L.__radd__(L), SI.Length, 12.)
        same('L.__rmod__(10m)', SI.Length.wrap(4.).__rmod__(SI.Length.wrap(10.)), SI.Length, 2.)
        same('T.__rtruediv__(L)', T.__rtruediv__(L), SI.Length / SI.Time, 3.)
    except Exception as e:
        print('an operator failed: %s: %s' % (type(e).__name__, e))
        ok = False
    ok &= _expect_raise('L+T', lambda: L + T)
    ok &= _expect_raise('L-T', lambda: L - T)
    ok &= _expect_raise('L<T', lambda: L < T)
    ok &= _expect_raise('L+1', lambda: L + 1)
    ok &= _expect_raise('1-L', lambda: 1 - L)
    ok &= _expect_raise('L%T', lambda: L % T)

    def boom(*a):
        raise ValueError('not a dimension error')
    ok &= _expect_raise('_try_or_noimp with a ValueError', lambda: SI._try_or_noimp(L, boom, T), ValueError)
    if SI._reverse(1, lambda a, b: (a, b), 2) != (2, 1):
        print('_reverse(self, func, arg) does not call func(arg, self)')
        ok = False
    print('REPLAY: not reproduced' if ok else 'REPLAY: VIOLATION-CONFIRMED an operator of Quantity does not follow the dimension rule of that operator')


def simple_check():
    import numpy
    from nutils import SI
    ok = True
    q = SI.Length.wrap(numpy.array([3., 4.]))
    if len(q) != 2:
        print('len(q) =', len(q))
        ok = False
    items = list(q)
    if [type(x) for x in items] != [SI.Length, SI.Length] or [x.unwrap() for x in items] != [3., 4.]:
        print('list(q) =', items)
        ok = False
    if bool(SI.Length.wrap(0.)) or not bool(SI.Length.wrap(2.)):
        print('bool(0m), bool(2m) =', bool(SI.Length.wrap(0.)), bool(SI.Length.wrap(2.)))
        ok = False
    print('REPLAY: not reproduced' if ok else 'REPLAY: VIOLATION-CONFIRMED __bool__/__len__/__iter__ do not act on the wrapped value in the own dimension')


def truediv_check():
    from nutils import SI
    ok = True
    L = SI.Length.wrap(6.)
    try:
        r = L / 'cm'
        if type(r) != float or abs(r - 600.) > 1e-9:
            print("6m / 'cm' =", repr(r))
            ok = False
        r = L / SI.Time.wrap(2.)
        if type(r) != SI.Length / SI.Time or r.unwrap() != 3.:
            print('6m / 2s =', repr(r))
            ok = False
    except Exception as e:
        print('division failed: %s: %s' % (type(e).__name__, e))
        ok = False
    ok &= _expect_raise("6m / 's'", lambda: L / 's')
    ok &= _expect_raise("6m / '5' (a bare number is not a length)", lambda: L / '5')
    print('REPLAY: not reproduced' if ok else "REPLAY: VIOLATION-CONFIRMED q / 'unit' does not give the value in that unit of the quantity's own dimension")
