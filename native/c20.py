"""Native replay for C20."""


def table(opname, expected, registered):
    from nutils import SI, function, sample, topology
    import numpy, operator
    print('callable %s: expected handler %s, registered handler(s) %s' % (opname, expected, registered))
    # demonstrate with a concrete computation where possible
    L, T = SI.Length('2m'), SI.Time('4s')
    try:
        f = eval(opname)
    except Exception:
        f = None
    demo = {'__mul_like': lambda: type(f(L, T)) == (SI.Length * SI.Time), '__div_like': lambda: type(f(L, T)) == (SI.Length / SI.Time),
            '__add_like': lambda: type(f(L, L)) == SI.Length}
    ok = None
    try:
        if expected in demo and f is not None:
            ok = demo[expected]()
    except Exception as e:
        ok = False
        print('calling it raised', type(e).__name__, e)
    if ok is False or ok is None:
        print('REPLAY: VIOLATION-CONFIRMED the dispatch table does not route %s to %s' % (opname, expected))
    else:
        print('REPLAY: not reproduced by the sample computation')
