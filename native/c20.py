"""Native replay for C20."""


def table(opname, expected, registered):
    from nutils import SI, function, sample, topology
    import numpy, operator
    print('callable %s: expected handler %s, registered handler(s) %s' % (opname, expected, registered))
    # demonstrate with a concrete computation where possible
    L, T = SI.Length('2m'), SI.Time('4s')
    try:
        f = eval(opname)
    except Exception:
        f = None
    demo = {'__mul_like': lambda: type(f(L, T)) == (SI.Length * SI.Time), '__div_like': lambda: type(f(L, T)) == (SI.Length / SI.Time),
            '__add_like': lambda: type(f(L, L)) == SI.Length}
    ok = None
    try:
        if expected in demo and f is not None:
            ok = demo[expected]()
    except Exception as e:
        ok = False
        print('calling it raised', type(e).__name__, e)
    if ok is False or ok is None:
        print('REPLAY: VIOLATION-CONFIRMED the dispatch table does not route %s to %s' % (opname, expected))
    else:
        print('REPLAY: not reproduced by the sample computation')


def call_check():
    from nutils import SI
    bad = [(SI.Length, '5'), (SI.Time, '7.5'), (SI.Velocity, '2m/5cm'), (SI.Length, '3s'), (SI.Dimensionless, '5m')]
    good = [(SI.Length, '5m', SI.Length), (SI.Velocity, '8km/h', SI.Velocity), (SI.Dimensionless, '5', float), (SI.Dimensionless, '2m/5cm', float)]
    for cls, s in bad:
        try:
            q = cls(s)
        except SI.DimensionError:
            continue
        print('%s(%r) was accepted and returned %r of type %s' % (cls.__name__, s, q, type(q).__name__))
        print('REPLAY: VIOLATION-CONFIRMED a quantity of the wrong dimension is accepted')
        return
    for cls, s, t in good:
        try:
            q = cls(s)
        except Exception as e:
            print('%s(%r) raised %s' % (cls.__name__, s, type(e).__name__))
            print('REPLAY: VIOLATION-CONFIRMED a quantity of the right dimension is rejected')
            return
        if type(q) != t:
            print('%s(%r) has type %s' % (cls.__name__, s, type(q).__name__))
            print('REPLAY: VIOLATION-CONFIRMED')
            return
    print('REPLAY: not reproduced')


# ---- operator methods and protocol fall-backs (contracts/C20_ops.py) ---------------------------------------------------

def _expect_raise(what, f, exc=TypeError):
    try:
        r = f()
    except exc:
        return True
    except Exception as e:
        print('%s raised %s instead of %s' % (what, type(e).__name__, exc.__name__))
        return False
    print('%s returned %r (type %s) instead of raising %s' % (what, r, type(r).__name__, exc.__name__))
    return False


def fallback_check():
    """Unregistered numpy functions / ufunc methods on a Quantity must raise; registered ones keep inputs and kwargs."""
    import numpy
    from nutils import SI, function
    q = SI.Length.wrap(numpy.array([1., 2., 3.]))
    t = SI.Time.wrap(numpy.array([1., 2., 4.]))
    ok = True
    ok &= _expect_raise('numpy.sin(q) [unregistered ufunc]', lambda: numpy.sin(q))
    ok &= _expect_raise('numpy.exp(q) [unregistered ufunc]', lambda: numpy.exp(q))
    ok &= _expect_raise('numpy.add.reduce(q) [ufunc method other than __call__]', lambda: numpy.add.reduce(q))
    ok &= _expect_raise('numpy.multiply.outer(q, q)', lambda: numpy.multiply.outer(q, q))
    ok &= _expect_raise('numpy.cumsum(q) [unregistered array function]', lambda: numpy.cumsum(q))
    ok &= _expect_raise('numpy.sort(q) [unregistered array function]', lambda: numpy.sort(q))
    try:
        r = numpy.add(q, q)
        if type(r) != SI.Length or r.unwrap().tolist() != [2., 4., 6.]:
            print('numpy.add(q, q) =', r)
            ok = False
        r = numpy.multiply(q, t)
        if type(r) != SI.Length * SI.Time:
            print('numpy.multiply(q, t) has type', type(r).__name__)
            ok = False
        m = SI.Length.wrap(numpy.arange(6.).reshape(2, 3))
        r = numpy.sum(m, axis=0)
        if type(r) != SI.Length or r.unwrap().tolist() != [3., 5., 7.]:
            print('numpy.sum(m, axis=0) =', r, '(keyword arguments lost?)')
            ok = False
        r = numpy.add(q, q, where=numpy.array([True, False, True]), out=numpy.zeros(3))
        if type(r) != SI.Length or r.unwrap().tolist() != [2., 0., 6.]:
            print('numpy.add(q, q, where=..., out=...) =', r, '(keyword arguments lost?)')
            ok = False
        from nutils import mesh
        dom, geom = mesh.unitsquare(2, 'square')
        r = function.mean(SI.Length.wrap(geom[0]))  # @nutils_dispatch but unregistered: the original runs on the still-wrapped quantity
        if type(r) != SI.Length:
            print('function.mean(length) has type', type(r).__name__)
            ok = False
        r = function.grad(SI.Mass.wrap(geom[0]), SI.Length.wrap(geom))
        if type(r) != SI.Mass / SI.Length:
            print('function.grad(mass, length) has type', type(r).__name__)
            ok = False
    except Exception as e:
        print('a registered function failed: %s: %s' % (type(e).__name__, e))
        ok = False
    print('REPLAY: not reproduced' if ok else 'REPLAY: VIOLATION-CONFIRMED a numpy/nutils function on a Quantity is not routed through the registered dimension rule')


def operators_check():
    """Every operator of Quantity follows the rule of the same operator; DimensionError only becomes TypeError."""
    import operator
    from nutils import SI
    L, T = SI.Length.wrap(6.), SI.Time.wrap(2.)
    ok = True

    def same(what, got, typ, val):
        nonlocal ok
        if type(got) != typ or (got.unwrap() if isinstance(got, SI.Quantity) else got) != val:
            print('%s = %r of type %s, expected %r of type %s' % (what, got, type(got).__name__, val, typ.__name__))
            ok = False
    try:
        same('L+L', L + L, SI.Length, 12.)
        same('L-L/3', L - L / 3, SI.Length, 4.)
        same('L*T', L * T, SI.Length * SI.Time, 12.)
        same('2*L', 2 * L, SI.Length, 12.)
        same('L*2', L * 2, SI.Length, 12.)
        same('L/T', L / T, SI.Length / SI.Time, 3.)
        same('12/L', 12 / L, SI.Length**-1, 2.)
        same('L**2', L**2, SI.Length**2, 36.)
        same('L%T-like: L%L', L % SI.Length.wrap(4.), SI.Length, 2.)
        same('-L', -L, SI.Length, -6.)
        same('+L', +L, SI.Length, 6.)
        same('abs(-L)', abs(-L), SI.Length, 6.)
        same('L<2L', L < 2 * L, bool, True)
        same('L<=L', L <= L, bool, True)
        same('L>2L', L > 2 * L, bool, False)
        same('L>=2L', L >= 2 * L, bool, False)
        same('L>=L', L >= L, bool, True)
        same('L>L', L > L, bool, False)
        same('L<L', L < L, bool, False)
        same('L==L', L == L, bool, True)
        same('L!=L', L != L, bool, False)
        import numpy
        A = SI.Length.wrap(numpy.array([1., 2.]))
        same('A@A', A @ A, SI.Length**2, 5.)
        same('A[1]', A[1], SI.Length, 2.)
        B = SI.Length.wrap(numpy.array([1., 2.]))
        B[0] = SI.Length.wrap(5.)
        same('B[0] after B[0]=5m', B[0], SI.Length, 5.)
        same('[1,2]@A', numpy.array([1., 2.]) @ A if False else A.__rmatmul__(numpy.array([1., 2.])), SI.Length, 5.)
        same('L.__rsub__(4L)', L.__rsub__(4 * L), SI.Length, 18.)
        same('L.__radd__(L)', L.__radd__(L), SI.Length, 12.)
        same('L.__rmod__(10m)', SI.Length.wrap(4.).__rmod__(SI.Length.wrap(10.)), SI.Length, 2.)
        same('T.__rtruediv__(L)', T.__rtruediv__(L), SI.Length / SI.Time, 3.)
    except Exception as e:
        print('an operator failed: %s: %s' % (type(e).__name__, e))
        ok = False
    ok &= _expect_raise('L+T', lambda: L + T)
    ok &= _expect_raise('L-T', lambda: L - T)
    ok &= _expect_raise('L<T', lambda: L < T)
    ok &= _expect_raise('L+1', lambda: L + 1)
    ok &= _expect_raise('1-L', lambda: 1 - L)
    ok &= _expect_raise('L%T', lambda: L % T)

    def boom(*a):
        raise ValueError('not a dimension error')
    ok &= _expect_raise('_try_or_noimp with a ValueError', lambda: SI._try_or_noimp(L, boom, T), ValueError)
    if SI._reverse(1, lambda a, b: (a, b), 2) != (2, 1):
        print('_reverse(self, func, arg) does not call func(arg, self)')
        ok = False
    print('REPLAY: not reproduced' if ok else 'REPLAY: VIOLATION-CONFIRMED an operator of Quantity does not follow the dimension rule of that operator')


def simple_check():
    import numpy
    from nutils import SI
    ok = True
    q = SI.Length.wrap(numpy.array([3., 4.]))
    if len(q) != 2:
        print('len(q) =', len(q))
        ok = False
    items = list(q)
    if [type(x) for x in items] != [SI.Length, SI.Length] or [x.unwrap() for x in items] != [3., 4.]:
        print('list(q) =', items)
        ok = False
    if bool(SI.Length.wrap(0.)) or not bool(SI.Length.wrap(2.)):
        print('bool(0m), bool(2m) =', bool(SI.Length.wrap(0.)), bool(SI.Length.wrap(2.)))
        ok = False
    print('REPLAY: not reproduced' if ok else 'REPLAY: VIOLATION-CONFIRMED __bool__/__len__/__iter__ do not act on the wrapped value in the own dimension')


def truediv_check():
    from nutils import SI
    ok = True
    L = SI.Length.wrap(6.)
    try:
        r = L / 'cm'
        if type(r) != float or abs(r - 600.) > 1e-9:
            print("6m / 'cm' =", repr(r))
            ok = False
        r = L / SI.Time.wrap(2.)
        if type(r) != SI.Length / SI.Time or r.unwrap() != 3.:
            print('6m / 2s =', repr(r))
            ok = False
    except Exception as e:
        print('division failed: %s: %s' % (type(e).__name__, e))
        ok = False
    ok &= _expect_raise("6m / 's'", lambda: L / 's')
    ok &= _expect_raise("6m / '5' (a bare number is not a length)", lambda: L / '5')
    print('REPLAY: not reproduced' if ok else "REPLAY: VIOLATION-CONFIRMED q / 'unit' does not give the value in that unit of the quantity's own dimension")


# ---- dimension names and unit strings (contracts/C20_strings.py) --------------------------------------------------------

def _fractions():
    from fractions import Fraction as F
    return [F(1), F(-1), F(2), F(-3), F(1, 2), F(-1, 2), F(3, 2), F(-5, 3), F(12), F(1, 10), F(11, 10)]


def names_check():
    """from_powers: canonical, decodable names; create: only decodable base names."""
    import itertools, pickle
    from fractions import Fraction as F
    from nutils import SI
    D = SI.Dimension
    bad = []
    bases = ['Xa', 'Xb', 'Xc_d', 'X1e']
    seen = {}
    for n in (0, 1, 2, 3):
        for names in itertools.combinations(bases, n):
            for powers in itertools.product(_fractions()[:7 if n == 3 else 11], repeat=n):
                m = dict(zip(names, powers))
                try:
                    c = D.from_powers(m)
                    for perm in itertools.permutations(list(m.items())):
                        if D.from_powers(dict(perm)) is not c:
                            bad.append('from_powers(%r) depends on the insertion order' % (m,))
                    key = tuple(sorted(m.items()))
                    if seen.setdefault(c.__name__, key) != key:
                        bad.append('power maps %r and %r share the name %s' % (dict(seen[c.__name__]), m, c.__name__))
                    back = getattr(SI.Quantity, c.__name__)
                    if back is not c:
                        bad.append('getattr(Quantity, %r) is %s, not the class of %r' % (c.__name__, back.__name__, m))
                    if (c**F(1, 1) is not c) or ((c * c) / c is not c):
                        bad.append('algebra on %s does not return the cached class' % c.__name__)
                    if n and pickle.loads(pickle.dumps(c.wrap(1.5))).__class__ is not c:
                        bad.append('pickle round trip of a %s changes the class' % c.__name__)
                except Exception as e:
                    bad.append('from_powers(%r): %s: %s' % (m, type(e).__name__, e))
                if len(bad) > 3:
                    break
    if D.from_powers({'Xa': F(0), 'Xb': F(2)}) is not D.from_powers({'Xb': F(2)}):
        bad.append('a zero exponent changes the class')
    for arg in ([('Xa', F(1))], {1: F(1)}, {'Xa': 1}, {'Xa': 1.5}):
        try:
            D.from_powers(arg)
            bad.append('from_powers(%r) accepted' % (arg,))
        except ValueError:
            pass
        except Exception as e:
            bad.append('from_powers(%r) raised %s' % (arg, type(e).__name__))
    for arg in ('Y2', 'Y_', 'Y2_3', 'Y*Z', 'Y/Z', '*Y', '/Y', '7', 7, 'T'):
        try:
            D.create(arg)
            bad.append('Dimension.create(%r) accepted' % (arg,))
        except ValueError:
            pass
        except Exception as e:
            bad.append('Dimension.create(%r) raised %s' % (arg, type(e).__name__))
    try:
        c = D.create('Qx')
        if c is not D.from_powers({'Qx': F(1)}):
            bad.append("create('Qx') is not from_powers({'Qx': 1})")
    except Exception as e:
        bad.append("create('Qx') raised %s: %s" % (type(e).__name__, e))
    for attr in ('unwrap_', '[L', 'L]'):
        try:
            getattr(SI.Length, attr)
            bad.append('Length.%s exists' % attr)
        except AttributeError:
            pass
        except Exception as e:
            bad.append('Length.%s raised %s' % (attr, type(e).__name__))
    for b in bad[:6]:
        print(b)
    print('REPLAY: VIOLATION-CONFIRMED dimension names are not canonical / decodable' if bad else 'REPLAY: not reproduced')


def _unit_cases():
    """(string, [(base, power, isnumer)]) over a few names, separators and exponent spellings."""
    import itertools
    from fractions import Fraction as F
    exps = [('', F(1)), ('2', F(2)), ('1_2', F(1, 2)), ('12', F(12)), ('3_10', F(3, 10))]
    names = ['m', 'kg', 'μs', '5cm', '.5N']
    out = [('', []), ('/', []), ('*', [])]
    for n in (1, 2, 3):
        for ns in itertools.product(names[:3 if n == 3 else 5], repeat=n):
            for es in itertools.product(exps[:3 if n == 3 else 5], repeat=n):
                for seps in itertools.product('*/', repeat=n - 1):
                    for lead in ('', '/'):
                        s, want, side = lead, [], not lead
                        for i in range(n):
                            if i:
                                s += seps[i - 1]
                                side = seps[i - 1] == '*'
                            s += ns[i] + es[i][0]
                            want.append((ns[i], es[i][1], side))
                        out.append((s, want))
    return out


def split_check():
    from nutils import SI
    for s, want in _unit_cases():
        got = list(SI._split_factors(s))
        if got != want:
            print('_split_factors(%r) = %r, expected %r' % (s, got, want))
            print('REPLAY: VIOLATION-CONFIRMED a unit string is split into the wrong factors')
            return
    try:
        list(SI._split_factors('m_0'))
        print("_split_factors('m_0') accepted a zero denominator")
        print('REPLAY: VIOLATION-CONFIRMED')
        return
    except ZeroDivisionError:
        pass
    print('REPLAY: not reproduced')


def _reference(s, number):
    """value and dimension of number + unit expression by the property, computed with Fractions of the unit table."""
    from nutils import SI
    val, dim = number, SI.Dimensionless
    for base, power, isnumer in _split_spec(s):
        u = base.lstrip('+-0123456789.')
        f = float(base[:len(base) - len(u)] or 1)
        q = SI.units[u]
        v = f * q.unwrap()**float(power)
        d = type(q)**power
        val, dim = (val * v, dim * d) if isnumer else (val / v, dim / d)
    return val, dim


def _split_spec(s):
    # independent re-statement of the unit grammar (not the code under test)
    import re
    from fractions import Fraction as F
    out = []
    for m in re.finditer(r'(^|[*/])([^*/]*)', s):
        sep, factor = m.group(1), m.group(2)
        if not factor:
            continue
        mm = re.fullmatch(r'(.*?[^0-9_])([0-9]*)(?:_([0-9]*))?', factor)
        base, num, den = mm.group(1), mm.group(2), mm.group(3)
        out.append((base, F(int(num or 1), int(den or 1)), sep != '/'))
    # a factor is a numerator iff the nearest separator to its left is not '/': matches 'a/b/c' = a/(b*c)
    return out


def parse_check():
    from nutils import SI
    cases = [(s, want) for s, want in _unit_cases() if all(b.lstrip('+-0123456789.') in SI.units for b, p, n in want)]
    for s, want in cases[::7] + [(x, None) for x in ('km/h', 'N*m', 'kg*m/s2', 'm/s/s', '/s', 'mm2', 'm1_2', 'm/5cm', 'km2/h*s', '')]:
        for num in ('', '5', '2.5', '-.5'):
            if num and s[:1] and s[0] in '+-0123456789.':
                continue  # the concatenation would spell another number
            try:
                q = SI.parse(num + s)
                val, dim = _reference(s, float(num or 1))
            except ZeroDivisionError:
                continue
            got_dim = type(q) if isinstance(q, SI.Quantity) else SI.Dimensionless
            got_val = q.unwrap() if isinstance(q, SI.Quantity) else q
            if got_dim is not dim or abs(got_val - val) > 1e-9 * max(1, abs(val)):
                print('parse(%r) = %r of %s, expected %r of %s' % (num + s, got_val, got_dim.__name__, val, dim.__name__))
                print('REPLAY: VIOLATION-CONFIRMED parse does not give the product/quotient/power of the unit values and dimensions')
                return
            if isinstance(q, SI.Quantity) and getattr(q, '_parsed_from', None) != num + s:
                print('parse(%r)._parsed_from = %r' % (num + s, getattr(q, '_parsed_from', None)))
                print('REPLAY: VIOLATION-CONFIRMED')
                return
    for s in ('5foo', 'm/bar2', '5m*', '3*'):
        try:
            q = SI.parse(s)
            if s.endswith('*') and s != '3*':
                continue
            if s == '3*':
                continue
            print('parse(%r) accepted: %r' % (s, q))
            print('REPLAY: VIOLATION-CONFIRMED an undefined unit is accepted')
            return
        except ValueError:
            pass
    print('REPLAY: not reproduced')


def format_check():
    from nutils import SI
    bad = []
    for q, spec, want in [(SI.Length.wrap(1500.), '.1km', '1.5km'), (SI.Length.wrap(1500.), 'km', '1.500000km'), (SI.Velocity.wrap(10.), '.0km/h', '36km/h'),
                          (SI.Area.wrap(2.), '.2m2', '2.00m2'), (SI.Length.wrap(.5) / SI.Time.wrap(1.), '7.3mm/s', '500.000mm/s'), (SI.Force.wrap(3.), ',.0mN', '3,000mN')]:
        try:
            got = format(q, spec)
        except Exception as e:
            got = '%s: %s' % (type(e).__name__, e)
        if got != want:
            bad.append('format(%r, %r) = %r, expected %r' % (q, spec, got, want))
    for q, spec in [(SI.Length.wrap(1.), '.1s'), (SI.Length.wrap(1.), '.1m2'), (SI.Velocity.wrap(1.), '.1km*h'), (SI.Length.wrap(1.), '.1')]:
        try:
            bad.append('format(%r, %r) = %r accepted a unit of another dimension' % (q, spec, format(q, spec)))
        except TypeError:
            pass
        except Exception as e:
            bad.append('format(%r, %r) raised %s' % (q, spec, type(e).__name__))
    if format(SI.Length.wrap(2.), '') != repr(SI.Length.wrap(2.)):
        bad.append('format(q, "") is not repr(q)')
    for b in bad[:5]:
        print(b)
    print("REPLAY: VIOLATION-CONFIRMED f'{q:<spec><unit>}' is not the value in that unit followed by the unit" if bad else 'REPLAY: not reproduced')


def roundtrip_check():
    from nutils import SI
    bad = []
    for unit in ('m', 'km', 'mm2', 'km/h', 'kg*m/s2', 'N*m', 'm/s/s', 'J/kg', 'm1_2', 'Pa*s', 'μm', 'm/5cm*s', 'L/min'):
        for num in ('5', '2.5', '1250', '.125', '-3'):
            try:
                q = SI.parse(num + unit)
                got = format(q, '.6' + unit)
            except Exception as e:
                got = '%s: %s' % (type(e).__name__, e)
            if got != format(float(num), '.6f') + unit:
                bad.append('format(parse(%r), %r) = %r' % (num + unit, '.6' + unit, got))
    for b in bad[:5]:
        print(b)
    print('REPLAY: VIOLATION-CONFIRMED parsing a unit string and formatting with the same unit does not round-trip the value' if bad else 'REPLAY: not reproduced')


def setattr_check():
    from nutils import SI
    bad = []
    U = SI.Units()
    U.m = SI.Length.wrap(1.)
    U.s = SI.Time.wrap(1.)
    pref = dict(Y=1e24, Z=1e21, E=1e18, P=1e15, T=1e12, G=1e9, M=1e6, k=1e3, h=1e2, d=1e-1, c=1e-2, m=1e-3, μ=1e-6, n=1e-9, p=1e-12, f=1e-15, a=1e-18, z=1e-21, y=1e-24)
    if set(U) != {'m', 's'} | {p + n for p in pref for n in 'ms'}:
        bad.append('defining m and s defines %r' % sorted(U))
    for p, f in pref.items():
        q = U.get(p + 'm')
        if q is None or type(q) is not SI.Length or abs(q.unwrap() - f) > 1e-12 * f:
            bad.append('%sm = %r' % (p, q))
    for name, value in (('m', SI.Length.wrap(2.)), ('in', SI.Length.wrap(.0254)), ('s', '2s'), ('ms', SI.Time.wrap(1.))):
        # 'in': m+'in' = 'min' is free but 'in' itself ... p+'in' never collides here; 'ms' collides with milli-second
        try:
            before = dict(U)
            setattr(U, name, value)
            if name in before:
                bad.append('units.%s redefined' % name)
        except ValueError:
            if dict(U) != before:
                bad.append('a refused definition of %s changed the table' % name)
    V = SI.Units()
    V.min = SI.Time.wrap(60.)
    try:
        setattr(V, 'in', SI.Length.wrap(.0254))  # milli-inch would be spelled 'min'
        bad.append("units.in accepted although 'min' is already defined ('min' would be ambiguous)")
    except ValueError:
        pass
    try:
        V.foo = 5
        bad.append('units.foo = 5 accepted')
    except TypeError:
        pass
    W = SI.Units()
    W.m = SI.Length.wrap(1.)
    W.a = 'm2'
    if type(W.a) is not SI.Area or type(W.ka) is not SI.Area or W.ka.unwrap() != 1e3:
        bad.append("units.a = 'm2' gives a = %r, ka = %r" % (W.a, W.get('ka')))
    for b in bad[:5]:
        print(b)
    print('REPLAY: VIOLATION-CONFIRMED Units.__setattr__ does not define exactly the name and its SI-prefixed forms, or accepts an ambiguous name' if bad else 'REPLAY: not reproduced')


# ---- nutils.unit (contracts/C20_unit.py) -----------------------------------------------------------------------------------

def unit_check():
    import itertools
    from nutils import unit
    Q = unit._Quantity
    bad = []
    maps = [{}, {'m': 1}, {'m': -2}, {'s': 3}, {'m': 2, 's': -1}, {'m': -1, 's': 1}]
    for pa, pb in itertools.product(maps, repeat=2):
        a, b = Q(3., pa), Q(.5, pb)
        r = a.__imul__(b)
        want = {k: pa.get(k, 0) + pb.get(k, 0) for k in set(pa) | set(pb) if pa.get(k, 0) + pb.get(k, 0)}
        if r is not a or a.powers != want or a.value != 1.5 or b.powers != pb or b.value != .5:
            bad.append('Q(3,%r) *= Q(.5,%r) gives value %r powers %r (other: %r %r)' % (pa, pb, a.value, a.powers, b.value, b.powers))
    for pa in maps:
        for n in (-2, -1, 0, 1, 2, 3):
            a = Q(2., pa)
            try:
                r = a**n
            except Exception as e:
                bad.append('Q(2,%r)**%d raised %s' % (pa, n, type(e).__name__))
                continue
            want = {k: v * n for k, v in pa.items() if v * n}
            if r.powers != want or r.value != 2.**n or a.powers != pa or a.value != 2.:
                bad.append('Q(2,%r)**%d gives value %r powers %r' % (pa, n, r.value, r.powers))
    if Q(2., {'m': 1}).__pow__(.5) is not NotImplemented or Q(2., {'m': 1}).__imul__(3.) is not NotImplemented:
        bad.append('non-int exponent / non-quantity factor accepted')
    U = unit.create(m=1, s=1, g=1e-3, N='kg*m/s2', Pa='N/m2', min='60s')
    for s, u, want in [('2km', 'm', 2000.), ('3N', 'kg*m/s2', 3.), ('5Pa*m2', 'N', 5.), ('2min', 's', 120.), ('7m/s*s', 'm', 7.), ('4kg*m*s/s2', 'N*s', 4.)]:
        try:
            got = U[u](s)
            if abs(got - want) > 1e-9 * abs(want):
                bad.append('%r as %r = %r, expected %r' % (s, u, got, want))
        except Exception as e:
            bad.append('%r as %r raised %s: %s' % (s, u, type(e).__name__, e))
    for s, u in [('2km', 's'), ('3N', 'kg*m/s'), ('2m2', 'm'), ('5', 'm'), ('2m/m', 'm'), ('2m*s/s', 's')]:
        try:
            bad.append('%r accepted as %r: %r' % (s, u, U[u](s)))
        except ValueError:
            pass
    for b in bad[:6]:
        print(b)
    print('REPLAY: VIOLATION-CONFIRMED nutils.unit does not add exponents pointwise / drop cancelled entries / reject another dimension' if bad else 'REPLAY: not reproduced')
