"""Native replays for C13: exercise every spelling on small concrete names and compare with the dict spelling / the definition."""
import numpy


def _mk():
    from nutils import function
    u = function.Argument('u', (2,), float)
    uw = function.Argument('uw', (2,), float)
    return function, u, uw


def argument_to_array(spelling, keykind, valkind):
    function, u, uw = _mk()
    f = u + uw
    x = function.Argument('x', (2,), float)
    key = {'name': 'uw', 'argument': uw, 'other': 3}[keykind]
    val = {'name': 'x', 'argument': x, 'array': function.Array.cast(numpy.array([1., 2.]))}[valkind]
    spec = {'dict': lambda: {key: val}, 'pairs': lambda: [(key, val)], 'str': lambda: '%s:%s' % (key, val), 'strs': lambda: ('%s:%s' % (key, val),)}[spelling]()
    try:
        pairs = list(function._argument_to_array(spec, f))
    except ValueError as e:
        if keykind == 'other':
            print('REPLAY: not reproduced (bad key rejected with ValueError)')
        else:
            print('REPLAY: VIOLATION-CONFIRMED valid specification %r rejected: %s' % (spec, e))
        return
    except Exception as e:
        print('specification %r -> %s: %s' % (spec, type(e).__name__, e))
        print('REPLAY: VIOLATION-CONFIRMED _argument_to_array raised %s instead of yielding or ValueError' % type(e).__name__)
        return
    names = [(a.name, a.shape, a.dtype) for a, n in pairs]
    if keykind == 'other' or names != [('uw', (2,), float)]:
        print('REPLAY: VIOLATION-CONFIRMED specification %r yielded %r' % (spec, names))
    else:
        print('REPLAY: not reproduced')


def replace_arguments(spelling, valkind):
    function, u, uw = _mk()
    f = u + uw
    val = 'x' if valkind == 'name' else function.Array.cast(numpy.array([1., 2.]))
    spec = {'dict': lambda: {'uw': val}, 'pairs': lambda: [('uw', val)], 'str': lambda: 'uw:x', 'strs': lambda: ('uw:x',)}[spelling]()
    r = function.replace_arguments(f, spec)
    want = ['u', 'x'] if valkind == 'name' else ['u']
    got = sorted(r.arguments)
    print('replace_arguments(u+uw, %r).arguments = %r, expected %r' % (spec, got, want))
    if got != want:
        print('REPLAY: VIOLATION-CONFIRMED announced arguments depend on the spelling of the replacement')
    else:
        print('REPLAY: not reproduced')


def monomial_derivative():
    """derivative of a factored polynomial in an argument of rank 3 against the derivative of the unfactored one"""
    from nutils import evaluable as ev
    rng = numpy.random.RandomState(2)
    for shape in [(2, 3, 4), (3, 2), (4,)]:
        u = ev.Argument('u', tuple(ev.constant(s) for s in shape), float)
        A = ev.constant(rng.rand(*shape))
        f = ev.Sum(ev._flat(A * u * u + A * u)) if hasattr(ev, '_flat') else None
        g = ev.factor(f)
        d1 = ev.derivative(f, u)
        d2 = ev.derivative(g, u)
        val = rng.rand(*shape)
        a, b = (numpy.asarray(ev.eval_once(d, arguments={'u': val})) for d in (d1, d2))
        if a.shape != b.shape or not numpy.allclose(a, b):
            print('argument of shape %s: derivative(factor(f), u) deviates from derivative(f, u) by %.3g' % (shape, abs(a - b).max()))
            print('REPLAY: VIOLATION-CONFIRMED the derivative of a factored polynomial is wrong')
            return
    print('REPLAY: not reproduced')


def _expect_derivative(function, f, var):
    """the documented outcome of derivative(f, var): ('raise',) or (shape, dtype, arguments, name of the evaluable target)"""
    if isinstance(var, str):
        if var not in f.arguments:
            return ('raise',)
        vshape, vdtype = f.arguments[var]
        vname = var
    elif isinstance(var, function.Argument):
        vname, vshape, vdtype = var.name, var.shape, var.dtype
        if vname in f.arguments and f.arguments[vname] != (vshape, vdtype):
            return ('raise',)
    else:
        return ('raise',)
    args = dict(f.arguments)
    args[vname] = (vshape, vdtype)
    return (f.shape + vshape, complex if vdtype == complex else f.dtype, args, vname, vshape, vdtype)


def derivative(varkind):
    """small concrete family: f = u_i g_j with u:(2,) float, g:(3,) float; var in several spellings incl. wrong shapes/dtypes"""
    from nutils import function
    u = function.Argument('u', (2,), float)
    g = function.Argument('g', (3,), float)
    c = function.Argument('c', (), complex)
    n = function.Argument('n', (2,), int)
    A = function.Argument
    for f in (u[:, numpy.newaxis] * g[numpy.newaxis, :] * n[0], u[:, numpy.newaxis] * g[numpy.newaxis, :] * c * n[0]):
        if not _derivative_family(function, f, varkind, u, g, A):
            return
    print('REPLAY: not reproduced')


def _derivative_family(function, f, varkind, u, g, A):
    family = {'name': ['u', 'g', 'zz', 'c', 'n'], 'argument': [A('c', (), complex), A('c', (), float), A('n', (2,), int), A('u', (2,), float), A('g', (3,), float), A('u', (3,), float), A('u', (2,), complex), A('g', (3, 1), float), A('w', (4, 5), complex), A('w', (), float)],
              'other': [3, None, 1.5]}[varkind]
    for var in family:
        want = _expect_derivative(function, f, var)
        what = 'derivative(u_i g_j, %s)' % (var if not isinstance(var, A) else 'Argument(%r, %r, %s)' % (var.name, var.shape, var.dtype.__name__),)
        try:
            d = function.derivative(f, var)
        except ValueError as e:
            if want != ('raise',):
                print('%s raised ValueError: %s' % (what, e))
                print('REPLAY: VIOLATION-CONFIRMED a valid derivative target is rejected')
                return False
            continue
        except Exception as e:
            print('%s raised %s: %s' % (what, type(e).__name__, e))
            print('REPLAY: VIOLATION-CONFIRMED derivative raised %s instead of ValueError' % type(e).__name__)
            return False
        if want == ('raise',):
            print('%s accepted: shape %r arguments %r' % (what, d.shape, dict(d.arguments)))
            print('REPLAY: VIOLATION-CONFIRMED an inconsistent derivative target is accepted')
            return False
        ev = d._eval_var
        got = (d.shape, d.dtype, dict(d.arguments), ev.name, tuple(int(n.__index__()) for n in ev.shape), ev.dtype)
        if got != want or d.spaces != f.spaces:
            print('%s announces %r, expected %r' % (what, got, want))
            print('REPLAY: VIOLATION-CONFIRMED derivative announces the wrong shape/dtype/arguments/target')
            return False
        # the derivative evaluates to the analytic one (f is bilinear)
        if ev.name in ('u', 'g') and ev.dtype == float:
            uv, gv = numpy.array([1., 2.]), numpy.array([3., 5., 7.])
            val = function.eval(d, arguments=dict(u=uv, g=gv, c=1., n=numpy.array([1, 0])))
            ref = numpy.einsum('ik,j->ijk', numpy.eye(2), gv) if ev.name == 'u' else numpy.einsum('i,jk->ijk', uv, numpy.eye(3))
            if val.shape != ref.shape or not numpy.allclose(val, ref):
                print('%s evaluates to\n%r\nexpected\n%r' % (what, val, ref))
                print('REPLAY: VIOLATION-CONFIRMED derivative evaluates to the wrong array')
                return False
    return True


def linearize(spelling, valkind):
    """f = u_i g_j; linearize(f, u:v) in the given spelling must have shape (2, 3), arguments u, g, v:(2,) float and evaluate to v_i g_j"""
    from nutils import function
    u = function.Argument('u', (2,), float)
    g = function.Argument('g', (3,), float)
    f = u[:, numpy.newaxis] * g[numpy.newaxis, :]
    for key, new in (('u', 'v'), ('g', 'h'), ('u', 'g'), ('g', 'u')):
        shape, dtype = f.arguments[key]
        val = new if valkind == 'name' else function.Argument(new, shape, dtype)
        spec = {'dict': lambda: {key: val}, 'pairs': lambda: [(key, val)], 'str': lambda: '%s:%s' % (key, val), 'strs': lambda: ('%s:%s' % (key, val),)}[spelling]()
        clash = new in f.arguments and f.arguments[new] != (shape, dtype)
        try:
            lin = function.linearize(f, spec)
        except ValueError as e:
            if not clash:
                print('linearize(u_i g_j, %r) raised ValueError: %s' % (spec, e))
                print('REPLAY: VIOLATION-CONFIRMED a valid linearization is rejected')
                return
            continue
        except Exception as e:
            print('linearize(u_i g_j, %r) raised %s: %s' % (spec, type(e).__name__, e))
            print('REPLAY: VIOLATION-CONFIRMED linearize raised %s' % type(e).__name__)
            return
        want = dict(f.arguments)
        want[new] = (shape, dtype)
        if clash or lin.shape != f.shape or dict(lin.arguments) != want or lin.dtype != float or lin.spaces != f.spaces:
            print('linearize(u_i g_j, %r): shape %r dtype %s arguments %r; expected shape %r arguments %r' % (spec, lin.shape, lin.dtype, dict(lin.arguments), f.shape, want))
            print('REPLAY: VIOLATION-CONFIRMED linearize announces the wrong shape/arguments')
            return
        vals = dict(u=numpy.array([1., 2.]), g=numpy.array([3., 5., 7.]))
        dirv = numpy.array([.5, -1.]) if key == 'u' else numpy.array([2., 0., -1.])
        if new not in vals:
            vals[new] = dirv
        else:
            dirv = vals[new]
        got = function.eval(lin, arguments=vals)
        ref = dirv[:, None] * vals['g'][None, :] if key == 'u' else vals['u'][:, None] * dirv[None, :]
        if not numpy.allclose(got, ref):
            print('linearize(u_i g_j, %r) evaluates to\n%r\nexpected the directional derivative\n%r' % (spec, got, ref))
            print('REPLAY: VIOLATION-CONFIRMED linearize is not the directional derivative')
            return
    print('REPLAY: not reproduced')


def argument_shape_check():
    """evaluable.Argument('u', (2, 3)): supplied values of another shape (also broadcastable ones) must raise ValueError, the right shape is returned unchanged"""
    from nutils import evaluable as ev
    for dtype in (float, int):
        u = ev.Argument('u', (ev.constant(2), ev.constant(3)), dtype)
        f = ev.compile(u, _simplify=False, _optimize=False)
        good = numpy.arange(6).reshape(2, 3).astype(dtype)
        try:
            r = f(dict(u=good, v=numpy.zeros((4,))))
        except Exception as e:
            print('a value of the declared shape raised %s: %s' % (type(e).__name__, e))
            print('REPLAY: VIOLATION-CONFIRMED a value of the right shape is rejected')
            return
        if numpy.shape(r) != (2, 3) or not (numpy.asarray(r) == good).all():
            print('REPLAY: VIOLATION-CONFIRMED the supplied value %r came back as %r' % (good, r))
            return
        for bad in (numpy.zeros((3,), dtype), numpy.zeros((1, 3), dtype), numpy.zeros((2, 1), dtype), numpy.zeros((), dtype), numpy.zeros((2, 3, 1), dtype), numpy.zeros((1, 2, 3), dtype), numpy.zeros((3, 2), dtype), numpy.zeros((2, 4), dtype), [1, 2, 3], 5):
            try:
                r = f(dict(u=bad))
            except ValueError:
                continue
            except Exception as e:
                print('a value of shape %r for an argument of shape (2, 3) raised %s: %s' % (numpy.shape(bad), type(e).__name__, e))
                print('REPLAY: VIOLATION-CONFIRMED wrong shape raises %s instead of ValueError' % type(e).__name__)
                return
            print('a value of shape %r was accepted for an argument of shape (2, 3); result has shape %r' % (numpy.shape(bad), numpy.shape(r)))
            print('REPLAY: VIOLATION-CONFIRMED a value of the wrong shape is accepted')
            return
    print('REPLAY: not reproduced')


def _ev_targets():
    from nutils import evaluable as ev
    u = ev.Argument('u', (ev.constant(2),), float)
    w = ev.Argument('w', (ev.constant(2),), float)
    x = ev.Sin(u)
    targets = {'T1': u, 'T2': ev.Power(u, w), 'T3': ev.Power(x, x), 'T4': ev.Power(ev.Sin(u), u), 'T5': ev.Tuple((ev.Power(u, w), ev.Power(w, u)))}
    num = {'T1': lambda U, W: U, 'T2': lambda U, W: U**W, 'T3': lambda U, W: numpy.sin(U)**numpy.sin(U), 'T4': lambda U, W: numpy.sin(U)**U, 'T5': lambda U, W: (U**W, W**U)}
    return ev, u, w, targets, num


def _close(a, b):
    if isinstance(a, tuple) or isinstance(b, tuple):
        return len(a) == len(b) and all(_close(x, y) for x, y in zip(a, b))
    return numpy.shape(a) == numpy.shape(b) and numpy.allclose(a, b)


def _all_objects(obj, seen):
    from nutils import _util
    if id(obj) in seen:
        return seen
    seen[id(obj)] = obj
    red = _util._reduce(obj)
    if red:
        for a in red[1]:
            _all_objects(a, seen)
    return seen


def ev_replace_arguments(target):
    """chains and swaps on small real DAGs: the result must evaluate to f with the replaced values (simultaneously), wrong dtypes/shapes must be refused"""
    ev, u, w, targets, num = _ev_targets()
    W0 = numpy.array([.3, .7])
    U0 = numpy.array([1.5, .4])
    five = ev.constant(numpy.array([5., 6.]))
    for T in ([target] if target in targets else []) + [t for t in targets if t != target]:
        f = targets[T]
        cases = [({'u': ev.Cos(w), 'w': five}, lambda: num[T](numpy.cos(W0), numpy.array([5., 6.])), 'chain u:cos(w), w:const (simultaneous)'),
                 ({'u': w, 'w': u}, lambda: num[T](W0, U0), 'swap u:w, w:u'),
                 ({'zz': five}, lambda: num[T](U0, W0), 'foreign name only')]
        for arguments, want, what in cases:
            try:
                r = ev.replace_arguments(f, arguments)
                got = ev.eval_once(r, arguments=dict(u=U0, w=W0))
            except Exception as e:
                print('%s: replace_arguments(%s) raised %s: %s' % (T, what, type(e).__name__, e))
                print('REPLAY: VIOLATION-CONFIRMED a consistent replacement raises')
                return
            if not _close(got, want()):
                print('%s: replace_arguments(%s) evaluates to %r, the definition gives %r' % (T, what, got, want()))
                print('REPLAY: VIOLATION-CONFIRMED the replaced expression does not evaluate to f at the replaced values')
                return
            reps = [v for v in arguments.values() if not isinstance(v, ev.Argument)]
            objs = _all_objects(r, {})
            present = set(a.name for a in f.arguments)
            if not all(id(v) in objs for k, v in arguments.items() if k in present and not isinstance(v, ev.Argument)):
                print('%s: replace_arguments(%s): the replacement object is not part of the result (it was rebuilt)' % (T, what))
                print('REPLAY: VIOLATION-CONFIRMED replacements are entered again')
                return
        if T == 'T3':
            r = ev.replace_arguments(f, {'u': ev.Cos(w)})
            if r.dependencies[0] is not r.dependencies[1]:
                print('REPLAY: VIOLATION-CONFIRMED the shared subexpression of T3 is rebuilt twice')
                return
        for bad, what in ((ev.constant(numpy.array([1, 2])), 'an int array for a float argument'), (ev.constant(numpy.array([1., 2., 3.])), 'shape (3,) for an argument of shape (2,)')):
            try:
                r = ev.replace_arguments(f, {'u': bad})
            except (AssertionError, ValueError):
                continue
            except Exception as e:
                print('%s: replacing u by %s raised %s' % (T, what, type(e).__name__))
                print('REPLAY: VIOLATION-CONFIRMED unexpected exception type')
                return
            print('%s: replacing u by %s is accepted: %r' % (T, what, r))
            print('REPLAY: VIOLATION-CONFIRMED a replacement of the wrong dtype/shape is accepted')
            return
    print('REPLAY: not reproduced')


def shallow_replace(target):
    """util.shallow_replace with a counting callable on small real DAGs: once per object, sharing preserved, children in order"""
    from nutils import _util
    ev, u, w, targets, num = _ev_targets()
    U0, W0 = numpy.array([1.5, .4]), numpy.array([.3, .7])
    for T, f in targets.items():
        for hit in (lambda o: None, lambda o: ev.Cos(o) if o is u else None, lambda o: ev.constant(numpy.array([2., 3.])) if isinstance(o, ev.Sin) else None):
            calls = {}
            made = {}

            def func(obj, extra):
                assert extra == 'extra'
                calls[id(obj)] = calls.get(id(obj), 0) + 1
                r = hit(obj)
                if r is not None:
                    made[id(obj)] = r
                return r
            try:
                r = _util.shallow_replace(func, f, 'extra')
            except Exception as e:
                print('%s: shallow_replace raised %s: %s' % (T, type(e).__name__, e))
                print('REPLAY: VIOLATION-CONFIRMED shallow_replace raises')
                return
            objs = _all_objects(f, {})
            # irreducible objects the callable declines (str, type, ...) are not memoised: they are visited per occurrence
            counted = [n for i, n in calls.items() if i in objs and (_util._reduce(objs[i]) or i in made)]
            if counted and max(counted) > 1:
                print('%s: the callable was applied %d times to one node' % (T, max(counted)))
                print('REPLAY: VIOLATION-CONFIRMED no memoisation: an object is processed more than once')
                return
            if T == 'T3' and r.dependencies[0] is not r.dependencies[1]:
                print('REPLAY: VIOLATION-CONFIRMED the shared subexpression of T3 is rebuilt twice')
                return
            Ur = numpy.cos(U0) if id(u) in made else U0
            sin = (lambda x: numpy.array([2., 3.])) if any(isinstance(o, ev.Sin) for o in _all_objects(f, {}).values()) and hit(ev.Sin(u)) is not None else numpy.sin
            want = {'T1': lambda: Ur, 'T2': lambda: Ur**W0, 'T3': lambda: sin(Ur)**sin(Ur), 'T4': lambda: sin(Ur)**Ur, 'T5': lambda: (Ur**W0, W0**Ur)}[T]()
            got = ev.eval_once(r, arguments=dict(u=U0, w=W0))
            if not _close(got, want):
                print('%s: shallow_replace result evaluates to %r, expected %r' % (T, got, want))
                print('REPLAY: VIOLATION-CONFIRMED the rebuilt expression differs from the definition (children out of order or replacement missed)')
                return
    print('REPLAY: not reproduced')


def zero_all_arguments(target):
    ev, u, w, targets, num = _ev_targets()
    n = ev.Argument('n', (ev.constant(2),), int)
    targets = dict(targets, Tn=ev.Tuple((u, n)))
    num = dict(num, Tn=lambda U, W: (U, numpy.zeros(2, int)))
    Z = numpy.zeros(2)
    for T, f in targets.items():
        r = ev.zero_all_arguments(f)
        if r.arguments:
            print('%s: zero_all_arguments leaves the arguments %r' % (T, sorted(a.name for a in r.arguments)))
            print('REPLAY: VIOLATION-CONFIRMED not every argument is zeroed')
            return
        with numpy.errstate(all='ignore'):
            got, want = ev.eval_once(r), num[T](Z, Z)
        if not _close(numpy.nan_to_num(got) if not isinstance(got, tuple) else tuple(map(numpy.nan_to_num, got)), numpy.nan_to_num(want) if not isinstance(want, tuple) else tuple(map(numpy.nan_to_num, want))):
            print('%s: zero_all_arguments evaluates to %r, f(0) is %r' % (T, got, want))
            print('REPLAY: VIOLATION-CONFIRMED zero_all_arguments(f) is not f at zero')
            return
    print('REPLAY: not reproduced')


def _degree_instances():
    """class name -> list of (description, node, argument, line(t) -> argument value); the true degree is measured by finite differences"""
    from nutils import evaluable as ev
    c = ev.constant
    u = ev.Argument('u', (c(3),), float)
    u6 = ev.Argument('u6', (c(6),), float)
    n = ev.Argument('n', (), int)
    a3, b3 = numpy.array([.3, -1.2, .8]), numpy.array([1.1, .7, -.4])
    a6, b6 = numpy.arange(6) * .3 - .5, numpy.array([1., -2., .5, .25, 3., -1.])
    lu = lambda t: {'u': a3 + t * b3}
    lu6 = lambda t: {'u6': a6 + t * b6}
    ln = lambda t: {'n': numpy.array(int(t))}
    sq = u * u
    tab = c(numpy.array([1., 4., 10., 19., 33., 60., 99., 150.]))
    i = ev.loop_index('i', c(3))
    I = {}
    I['Argument'] = [('u', u, u, lu)]
    I['Multiply'] = [('u*u*u', sq * u, u, lu), ('u*u', sq, u, lu)]
    I['Add'] = [('u*u + u', sq + u, u, lu), ('u + u*u*u', u + sq * u, u, lu)]
    I['Power'] = [('u**3', ev.power(u, 3.), u, lu), ('(u*u)**2', ev.power(sq, 2.), u, lu), ('(u**2)**1.25', ev.power(ev.power(u, 2.), 1.25), u, lu), ('(u*u)**3', ev.power(sq, 3.), u, lu), ('u**-2', ev.power(u, -2.), u, lu), ('2**sum(u)', ev.power(2., ev.Sum(u)), u, lu)]
    I['Take'] = [('(u*u)[[0,2]]', ev.Take(sq, c(numpy.array([0, 2]))), u, lu), ('table[n]', ev.Take(tab, n), n, ln)]
    I['Inflate'] = [('inflate(u*u)', ev.Inflate(sq, c(numpy.array([0, 2, 4])), c(5)), u, lu), ('inflate(table[:3], [0,1,2]*n, 8)', ev.Inflate(c(numpy.array([1., 2., 3.])), c(numpy.array([0, 1, 2])) * n, c(8)), n, ln)]
    I['Sum'] = [('sum(u*u)', ev.Sum(sq), u, lu)]
    I['InsertAxis'] = [('insertaxis(u*u, 2)', ev.InsertAxis(sq, c(2)), u, lu)]
    I['Transpose'] = [('transpose(insertaxis(u*u*u))', ev.Transpose(ev.InsertAxis(sq * u, c(2)), (1, 0)), u, lu)]
    I['Diagonalize'] = [('diagonalize(u*u)', ev.Diagonalize(sq), u, lu)]
    I['TakeDiag'] = [('takediag(diagonalize(u*u))', ev.TakeDiag(ev.Diagonalize(sq)), u, lu)]
    I['Ravel'] = [('ravel(insertaxis(u*u, 2))', ev.Ravel(ev.InsertAxis(sq, c(2))), u, lu)]
    I['Unravel'] = [('unravel(u6*u6, 2, 3)', ev.Unravel(u6 * u6, c(2), c(3)), u6, lu6)]
    I['LoopSum'] = [('loop_sum(u*u*i)', ev.loop_sum(sq * ev.astype(i, float) if hasattr(ev, 'astype') else sq, i), u, lu)]
    I['LoopConcatenate'] = [('loop_concatenate(u*u)', ev.loop_concatenate(sq, i), u, lu)]
    idx = c(numpy.array([0, 2, 1]))
    I['Monomial'] = [('Monomial(v, (u, u, u))', ev.Monomial(c(numpy.array([2., -1., .5])), (u, u, u), ((idx,), (idx,), (idx,)), (3, 2, 1)), u, lu),
                     ('Monomial(u, (u,))', ev.Monomial(u, (u,), ((idx,),), (1,)), u, lu)]
    return ev, I


def argument_degree_rules(clsname):
    """every announced degree must annihilate the finite differences of that order + 1 along a line in the argument"""
    ev, I = _degree_instances()
    names = ([clsname] if clsname in I else []) + [k for k in I if k != clsname]
    for k in names:
        for what, node, arg, line in I[k]:
            try:
                d = node.argument_degree(arg)
            except ev.NotPolynomal:
                continue
            except Exception as e:
                print('%s: argument_degree of %s raised %s: %s' % (k, what, type(e).__name__, e))
                print('REPLAY: VIOLATION-CONFIRMED argument_degree raises %s' % type(e).__name__)
                return
            if not isinstance(d, int) or d < 0:
                print('REPLAY: VIOLATION-CONFIRMED %s: argument_degree of %s is %r' % (k, what, d))
                return
            f = ev.compile(node)
            with numpy.errstate(all='ignore'):
                vals = numpy.array([numpy.asarray(f(line(t)), dtype=float) for t in range(d + 2)])
            fd = numpy.diff(vals, n=d + 1, axis=0)
            scale = max(1., abs(vals).max())
            if not numpy.all(numpy.isfinite(fd)) or abs(fd).max() > 1e-7 * scale:
                print('%s: %s announces degree %d in %r, but its difference of order %d along a line does not vanish (%.3g): the true degree is larger or it is not polynomial' % (k, what, d, arg.name, d + 1, abs(fd).max()))
                print('REPLAY: VIOLATION-CONFIRMED argument_degree is not an upper bound of the true degree')
                return
    # the wrapper: a constant is of degree 0, a declined rule raises NotPolynomal
    ev2, I2 = ev, I
    u = I['Argument'][0][1]
    if ev.constant(numpy.array([1., 2., 3.])).argument_degree(u) != 0:
        print('REPLAY: VIOLATION-CONFIRMED a constant does not have degree 0')
        return
    try:
        d = ev.Sin(u).argument_degree(u)
        print('REPLAY: VIOLATION-CONFIRMED sin(u) announces degree %r instead of raising NotPolynomal' % (d,))
        return
    except ev.NotPolynomal:
        pass
    try:
        if (u * u).argument_degree(u) != 2 or ev.Take(ev.constant(numpy.array([1., 2.])), ev.constant(1)).argument_degree(u) != 0:
            raise AssertionError
    except Exception as e:
        print('REPLAY: VIOLATION-CONFIRMED the degree of u*u / of a constant is not delivered (%s)' % type(e).__name__)
        return
    print('REPLAY: not reproduced')


def field(which):
    """field/dotarg on small concrete arrays: the created argument, the announced table, the shape and the value (repeated tensordot over the first axes)"""
    from nutils import function
    f = getattr(function, which)
    p = function.Argument('p', (4,), float)
    pv = numpy.array([2., -1., .5, 3.])
    m0, m1, v0 = numpy.arange(6.).reshape(2, 3) - 2, numpy.arange(8.).reshape(4, 2) + 1, numpy.array([1., -2., 4.])
    cases = [((), (), (5,), float), (((m0, 0),), (), (), float), (((v0, 1),), (), (2,), float), (((m0, 0), (m1, 2)), (), (5,), float), (((v0, 3), (m1, 0)), (), (), float), (((m0, 1),), (), (2,), complex)]
    rng = numpy.random.RandomState(3)
    for arrs, _, shape, dtype in cases:
        arrays = [function.Array.cast(a) * p[k] for a, k in arrs]
        nums = [a * pv[k] for a, k in arrs]
        what = '%s("u", %s, shape=%r, dtype=%s)' % (which, ', '.join('array%r' % (a.shape,) for a in arrays), shape, dtype.__name__)
        try:
            r = f('u', *arrays, shape=shape, dtype=dtype)
        except Exception as e:
            print('%s raised %s: %s' % (what, type(e).__name__, e))
            print('REPLAY: VIOLATION-CONFIRMED a valid field raises')
            return
        ashape = tuple(a.shape[0] for a in arrays) + shape
        wantargs = {'u': (ashape, dtype)}
        if arrays:
            wantargs['p'] = ((4,), float)
        wantshape = shape + sum((a.shape[1:] for a in arrays), ())
        if r.shape != wantshape or dict(r.arguments) != wantargs:
            print('%s: shape %r arguments %r, expected shape %r arguments %r' % (what, r.shape, dict(r.arguments), wantshape, wantargs))
            print('REPLAY: VIOLATION-CONFIRMED field announces the wrong shape or arguments')
            return
        uv = rng.rand(*ashape).astype(dtype)
        ref = uv
        for a in nums:
            ref = numpy.tensordot(ref, a, axes=([0], [0]))
        got = function.eval(r, arguments=dict(u=uv, p=pv))
        if numpy.shape(got) != numpy.shape(ref) or not numpy.allclose(got, ref):
            print('%s evaluates to\n%r\nthe inner product over the first axes is\n%r' % (what, got, ref))
            print('REPLAY: VIOLATION-CONFIRMED field is not the inner product with the first axes of the arrays')
            return
    try:
        f('p', function.Array.cast(m0) * p[0])
        print('REPLAY: VIOLATION-CONFIRMED a field named like an argument of its array with another shape is accepted')
        return
    except ValueError:
        pass
    print('REPLAY: not reproduced')
