"""Native replays for C13: exercise every spelling on small concrete names and compare with the dict spelling / the definition."""
import numpy


def _mk():
    from nutils import function
    u = function.Argument('u', (2,), float)
    uw = function.Argument('uw', (2,), float)
    return function, u, uw


def argument_to_array(spelling, keykind, valkind):
    function, u, uw = _mk()
    f = u + uw
    x = function.Argument('x', (2,), float)
    key = {'name': 'uw', 'argument': uw, 'other': 3}[keykind]
    val = {'name': 'x', 'argument': x, 'array': function.Array.cast(numpy.array([1., 2.]))}[valkind]
    spec = {'dict': lambda: {key: val}, 'pairs': lambda: [(key, val)], 'str': lambda: '%s:%s' % (key, val), 'strs': lambda: ('%s:%s' % (key, val),)}[spelling]()
    try:
        pairs = list(function._argument_to_array(spec, f))
    except ValueError as e:
        if keykind == 'other':
            print('REPLAY: not reproduced (bad key rejected with ValueError)')
        else:
            print('REPLAY: VIOLATION-CONFIRMED valid specification %r rejected: %s' % (spec, e))
        return
    except Exception as e:
        print('specification %r -> %s: %s' % (spec, type(e).__name__, e))
        print('REPLAY: VIOLATION-CONFIRMED _argument_to_array raised %s instead of yielding or ValueError' % type(e).__name__)
        return
    names = [(a.name, a.shape, a.dtype) for a, n in pairs]
    if keykind == 'other' or names != [('uw', (2,), float)]:
        print('REPLAY: VIOLATION-CONFIRMED specification %r yielded %r' % (spec, names))
    else:
        print('REPLAY: not reproduced')


def replace_arguments(spelling, valkind):
    function, u, uw = _mk()
    f = u + uw
    val = 'x' if valkind == 'name' else function.Array.cast(numpy.array([1., 2.]))
    spec = {'dict': lambda: {'uw': val}, 'pairs': lambda: [('uw', val)], 'str': lambda: 'uw:x', 'strs': lambda: ('uw:x',)}[spelling]()
    r = function.replace_arguments(f, spec)
    want = ['u', 'x'] if valkind == 'name' else ['u']
    got = sorted(r.arguments)
    print('replace_arguments(u+uw, %r).arguments = %r, expected %r' % (spec, got, want))
    if got != want:
        print('REPLAY: VIOLATION-CONFIRMED announced arguments depend on the spelling of the replacement')
    else:
        print('REPLAY: not reproduced')


def monomial_derivative():
    """derivative of a factored polynomial in an argument of rank 3 against the derivative of the unfactored one"""
    from nutils import evaluable as ev
    rng = numpy.random.RandomState(2)
    for shape in [(2, 3, 4), (3, 2), (4,)]:
        u = ev.Argument('u', tuple(ev.constant(s) for s in shape), float)
        A = ev.constant(rng.rand(*shape))
        f = ev.Sum(ev._flat(A * u * u + A * u)) if hasattr(ev, '_flat') else None
        g = ev.factor(f)
        d1 = ev.derivative(f, u)
        d2 = ev.derivative(g, u)
        val = rng.rand(*shape)
        a, b = (numpy.asarray(ev.eval_once(d, arguments={'u': val})) for d in (d1, d2))
        if a.shape != b.shape or not numpy.allclose(a, b):
            print('argument of shape %s: derivative(factor(f), u) deviates from derivative(f, u) by %.3g' % (shape, abs(a - b).max()))
            print('REPLAY: VIOLATION-CONFIRMED the derivative of a factored polynomial is wrong')
            return
    print('REPLAY: not reproduced')


def _expect_derivative(function, f, var):
    """the documented outcome of derivative(f, var): ('raise',) or (shape, dtype, arguments, name of the evaluable target)"""
    if isinstance(var, str):
        if var not in f.arguments:
            return ('raise',)
        vshape, vdtype = f.arguments[var]
        vname = var
    elif isinstance(var, function.Argument):
        vname, vshape, vdtype = var.name, var.shape, var.dtype
        if vname in f.arguments and f.arguments[vname] != (vshape, vdtype):
            return ('raise',)
    else:
        return ('raise',)
    args = dict(f.arguments)
    args[vname] = (vshape, vdtype)
    return (f.shape + vshape, complex if vdtype == complex else f.dtype, args, vname, vshape, vdtype)


def derivative(varkind):
    """small concrete family: f = u_i g_j with u:(2,) float, g:(3,) float; var in several spellings incl. wrong shapes/dtypes"""
    from nutils import function
    u = function.Argument('u', (2,), float)
    g = function.Argument('g', (3,), float)
    c = function.Argument('c', (), complex)
    n = function.Argument('n', (2,), int)
    A = function.Argument
    for f in (u[:, numpy.newaxis] * g[numpy.newaxis, :] * n[0], u[:, numpy.newaxis] * g[numpy.newaxis, :] * c * n[0]):
        if not _derivative_family(function, f, varkind, u, g, A):
            return
    print('REPLAY: not reproduced')


def _derivative_family(function, f, varkind, u, g, A):
    family = {'name': ['u', 'g', 'zz', 'c', 'n'], 'argument': [A('c', (), complex), A('c', (), float), A('n', (2,), int), A('u', (2,), float), A('g', (3,), float), A('u', (3,), float), A('u', (2,), complex), A('g', (3, 1), float), A('w', (4, 5), complex), A('w', (), float)],
              'other': [3, None, 1.5]}[varkind]
    for var in family:
        want = _expect_derivative(function, f, var)
        what = 'derivative(u_i g_j, %s)' % (var if not isinstance(var, A) else 'Argument(%r, %r, %s)' % (var.name, var.shape, var.dtype.__name__),)
        try:
            d = function.derivative(f, var)
        except ValueError as e:
            if want != ('raise',):
                print('%s raised ValueError: %s' % (what, e))
                print('REPLAY: VIOLATION-CONFIRMED a valid derivative target is rejected')
                return False
            continue
        except Exception as e:
            print('%s raised %s: %s' % (what, type(e).__name__, e))
            print('REPLAY: VIOLATION-CONFIRMED derivative raised %s instead of ValueError' % type(e).__name__)
            return False
        if want == ('raise',):
            print('%s accepted: shape %r arguments %r' % (what, d.shape, dict(d.arguments)))
            print('REPLAY: VIOLATION-CONFIRMED an inconsistent derivative target is accepted')
            return False
        ev = d._eval_var
        got = (d.shape, d.dtype, dict(d.arguments), ev.name, tuple(int(n.__index__()) for n in ev.shape), ev.dtype)
        if got != want or d.spaces != f.spaces:
            print('%s announces %r, expected %r' % (what, got, want))
            print('REPLAY: VIOLATION-CONFIRMED derivative announces the wrong shape/dtype/arguments/target')
            return False
        # the derivative evaluates to the analytic one (f is bilinear)
        if ev.name in ('u', 'g') and ev.dtype == float:
            uv, gv = numpy.array([1., 2.]), numpy.array([3., 5., 7.])
            val = function.eval(d, arguments=dict(u=uv, g=gv, c=1., n=numpy.array([1, 0])))
            ref = numpy.einsum('ik,j->ijk', numpy.eye(2), gv) if ev.name == 'u' else numpy.einsum('i,jk->ijk', uv, numpy.eye(3))
            if val.shape != ref.shape or not numpy.allclose(val, ref):
                print('%s evaluates to\n%r\nexpected\n%r' % (what, val, ref))
                print('REPLAY: VIOLATION-CONFIRMED derivative evaluates to the wrong array')
                return False
    return True


def linearize(spelling, valkind):
    """f = u_i g_j; linearize(f, u:v) in the given spelling must have shape (2, 3), arguments u, g, v:(2,) float and evaluate to v_i g_j"""
    from nutils import function
    u = function.Argument('u', (2,), float)
    g = function.Argument('g', (3,), float)
    f = u[:, numpy.newaxis] * g[numpy.newaxis, :]
    for key, new in (('u', 'v'), ('g', 'h'), ('u', 'g'), ('g', 'u')):
        shape, dtype = f.arguments[key]
        val = new if valkind == 'name' else function.Argument(new, shape, dtype)
        spec = {'dict': lambda: {key: val}, 'pairs': lambda: [(key, val)], 'str': lambda: '%s:%s' % (key, val), 'strs': lambda: ('%s:%s' % (key, val),)}[spelling]()
        clash = new in f.arguments and f.arguments[new] != (shape, dtype)
        try:
            lin = function.linearize(f, spec)
        except ValueError as e:
            if not clash:
                print('linearize(u_i g_j, %r) raised ValueError: %s' % (spec, e))
                print('REPLAY: VIOLATION-CONFIRMED a valid linearization is rejected')
                return
            continue
        except Exception as e:
            print('linearize(u_i g_j, %r) raised %s: %s' % (spec, type(e).__name__, e))
            print('REPLAY: VIOLATION-CONFIRMED linearize raised %s' % type(e).__name__)
            return
        want = dict(f.arguments)
        want[new] = (shape, dtype)
        if clash or lin.shape != f.shape or dict(lin.arguments) != want or lin.dtype != float or lin.spaces != f.spaces:
            print('linearize(u_i g_j, %r): shape %r dtype %s arguments %r; expected shape %r arguments %r' % (spec, lin.shape, lin.dtype, dict(lin.arguments), f.shape, want))
            print('REPLAY: VIOLATION-CONFIRMED linearize announces the wrong shape/arguments')
            return
        vals = dict(u=numpy.array([1., 2.]), g=numpy.array([3., 5., 7.]))
        dirv = numpy.array([.5, -1.]) if key == 'u' else numpy.array([2., 0., -1.])
        if new not in vals:
            vals[new] = dirv
        else:
            dirv = vals[new]
        got = function.eval(lin, arguments=vals)
        ref = dirv[:, None] * vals['g'][None, :] if key == 'u' else vals['u'][:, None] * dirv[None, :]
        if not numpy.allclose(got, ref):
            print('linearize(u_i g_j, %r) evaluates to\n%r\nexpected the directional derivative\n%r' % (spec, got, ref))
            print('REPLAY: VIOLATION-CONFIRMED linearize is not the directional derivative')
            return
    print('REPLAY: not reproduced')


def argument_shape_check():
    """evaluable.Argument('u', (2, 3)): supplied values of another shape (also broadcastable ones) must raise ValueError, the right shape is returned unchanged"""
    from nutils import evaluable as ev
    for dtype in (float, int):
        u = ev.Argument('u', (ev.constant(2), ev.constant(3)), dtype)
        f = ev.compile(u, _simplify=False, _optimize=False)
        good = numpy.arange(6).reshape(2, 3).astype(dtype)
        try:
            r = f(dict(u=good, v=numpy.zeros((4,))))
        except Exception as e:
            print('a value of the declared shape raised %s: %s' % (type(e).__name__, e))
            print('REPLAY: VIOLATION-CONFIRMED a value of the right shape is rejected')
            return
        if numpy.shape(r) != (2, 3) or not (numpy.asarray(r) == good).all():
            print('REPLAY: VIOLATION-CONFIRMED the supplied value %r came back as %r' % (good, r))
            return
        for bad in (numpy.zeros((3,), dtype), numpy.zeros((1, 3), dtype), numpy.zeros((2, 1), dtype), numpy.zeros((), dtype), numpy.zeros((2, 3, 1), dtype), numpy.zeros((1, 2, 3), dtype), numpy.zeros((3, 2), dtype), numpy.zeros((2, 4), dtype), [1, 2, 3], 5):
            try:
                r = f(dict(u=bad))
            except ValueError:
                continue
            except Exception as e:
                print('a value of shape %r for an argument of shape (2, 3) raised %s: %s' % (numpy.shape(bad), type(e).__name__, e))
                print('REPLAY: VIOLATION-CONFIRMED wrong shape raises %s instead of ValueError' % type(e).__name__)
                return
            print('a value of shape %r was accepted for an argument of shape (2, 3); result has shape %r' % (numpy.shape(bad), numpy.shape(r)))
            print('REPLAY: VIOLATION-CONFIRMED a value of the wrong shape is accepted')
            return
    print('REPLAY: not reproduced')
