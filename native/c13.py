"""Native replays for C13: exercise every spelling on small concrete names and compare with the dict spelling / the definition."""
import numpy


def _mk():
    from nutils import function
    u = function.Argument('u', (2,), float)
    uw = function.Argument('uw', (2,), float)
    return function, u, uw


def argument_to_array(spelling, keykind, valkind):
    function, u, uw = _mk()
    f = u + uw
    x = function.Argument('x', (2,), float)
    key = {'name': 'uw', 'argument': uw, 'other': 3}[keykind]
    val = {'name': 'x', 'argument': x, 'array': function.Array.cast(numpy.array([1., 2.]))}[valkind]
    spec = {'dict': lambda: {key: val}, 'pairs': lambda: [(key, val)], 'str': lambda: '%s:%s' % (key, val), 'strs': lambda: ('%s:%s' % (key, val),)}[spelling]()
    try:
        pairs = list(function._argument_to_array(spec, f))
    except ValueError as e:
        if keykind == 'other':
            print('REPLAY: not reproduced (bad key rejected with ValueError)')
        else:
            print('REPLAY: VIOLATION-CONFIRMED valid specification %r rejected: %s' % (spec, e))
        return
    except Exception as e:
        print('specification %r -> %s: %s' % (spec, type(e).__name__, e))
        print('REPLAY: VIOLATION-CONFIRMED _argument_to_array raised %s instead of yielding or ValueError' % type(e).__name__)
        return
    names = [(a.name, a.shape, a.dtype) for a, n in pairs]
    if keykind == 'other' or names != [('uw', (2,), float)]:
        print('REPLAY: VIOLATION-CONFIRMED specification %r yielded %r' % (spec, names))
    else:
        print('REPLAY: not reproduced')


def replace_arguments(spelling, valkind):
    function, u, uw = _mk()
    f = u + uw
    val = 'x' if valkind == 'name' else function.Array.cast(numpy.array([1., 2.]))
    spec = {'dict': lambda: {'uw': val}, 'pairs': lambda: [('uw', val)], 'str': lambda: 'uw:x', 'strs': lambda: ('uw:x',)}[spelling]()
    r = function.replace_arguments(f, spec)
    want = ['u', 'x'] if valkind == 'name' else ['u']
    got = sorted(r.arguments)
    print('replace_arguments(u+uw, %r).arguments = %r, expected %r' % (spec, got, want))
    if got != want:
        print('REPLAY: VIOLATION-CONFIRMED announced arguments depend on the spelling of the replacement')
    else:
        print('REPLAY: not reproduced')


def monomial_derivative():
    """derivative of a factored polynomial in an argument of rank 3 against the derivative of the unfactored one"""
    from nutils import evaluable as ev
    rng = numpy.random.RandomState(2)
    for shape in [(2, 3, 4), (3, 2), (4,)]:
        u = ev.Argument('u', tuple(ev.constant(s) for s in shape), float)
        A = ev.constant(rng.rand(*shape))
        f = ev.Sum(ev._flat(A * u * u + A * u)) if hasattr(ev, '_flat') else None
        g = ev.factor(f)
        d1 = ev.derivative(f, u)
        d2 = ev.derivative(g, u)
        val = rng.rand(*shape)
        a, b = (numpy.asarray(ev.eval_once(d, arguments={'u': val})) for d in (d1, d2))
        if a.shape != b.shape or not numpy.allclose(a, b):
            print('argument of shape %s: derivative(factor(f), u) deviates from derivative(f, u) by %.3g' % (shape, abs(a - b).max()))
            print('REPLAY: VIOLATION-CONFIRMED the derivative of a factored polynomial is wrong')
            return
    print('REPLAY: not reproduced')
