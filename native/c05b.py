"""Native replays for the C05 extension (contracts/C05b.py): a small concrete family of array expressions per function under
contract; for each, the sparse data (COO via Array.assparse, chunks via _assparse, CSR via as_csr) are evaluated and
compared with the dense evaluation.  The counter-model of the symbolic obligation has no direct preimage (the symbolic inputs
are chunk lists of arbitrary children), so the family is searched, guided by the clause; said so in the output."""
import itertools, numpy


def _ev():
    from nutils import evaluable as ev
    return ev


def _arg(name, shape, dtype=float):
    ev = _ev()
    return ev.Argument(name, tuple(ev.constant(int(s)) for s in shape), dtype)


def _dense(f, arguments):
    return numpy.asarray(_ev().eval_once(f, arguments=arguments))


def coo_failures(f, arguments, what):
    """Property clauses for the COO data of f.assparse against the dense value."""
    ev = _ev()
    dense = _dense(f, arguments)
    values, indices, shape = f.assparse
    v, *ix = ev.eval_once((values, *indices), arguments=arguments)
    v = numpy.asarray(v)
    ix = [numpy.asarray(i) for i in ix]
    fails = []
    if any(i.shape != v.shape or i.ndim != 1 for i in ix):
        fails.append('index/value lengths differ')
        return fails
    for k, i in enumerate(ix):
        if len(i) and (i.min() < 0 or i.max() >= dense.shape[k]):
            fails.append('index-in-shape: axis %d has indices %s outside [0,%d)' % (k, i.tolist(), dense.shape[k]))
    tuples = list(zip(*[i.tolist() for i in ix])) if ix else []
    if any(not a < b for a, b in zip(tuples, tuples[1:])):
        fails.append('lexicographic-strict: index tuples %s' % tuples)
    if not fails:
        s = numpy.zeros(dense.shape, dtype=dense.dtype if dense.dtype != bool else int)
        if ix:
            numpy.add.at(s, tuple(ix), v)
        else:
            s = s + v.sum()
        if not numpy.allclose(s, dense):
            fails.append('scatter: sparse data give %s, dense value %s' % (s.tolist(), dense.tolist()))
    return ['%s: %s' % (what, m) for m in fails]


def chunk_failures(f, arguments, what):
    """scattering the chunks of f._assparse into zeros reproduces the dense value; every index inside the shape"""
    ev = _ev()
    dense = _dense(f, arguments)
    s = numpy.zeros(dense.shape, dtype=float)
    fails = []
    for *ind, val in f._assparse:
        got = ev.eval_once((val, *ind), arguments=arguments)
        val_, ind_ = numpy.asarray(got[0]), [numpy.asarray(i) for i in got[1:]]
        if any(i.shape != val_.shape for i in ind_):
            fails.append('chunk index/value shapes differ: %s vs %s' % ([i.shape for i in ind_], val_.shape))
            continue
        for k, i in enumerate(ind_):
            if i.size and (i.min() < 0 or i.max() >= dense.shape[k]):
                fails.append('index-in-shape: axis %d has indices outside [0,%d): %s' % (k, dense.shape[k], i.ravel().tolist()))
        if not fails:
            if ind_:
                numpy.add.at(s, tuple(ind_), val_)
            else:
                s = s + val_.sum()
    if not fails and not numpy.allclose(s, dense.astype(float)):
        fails.append('scatter: chunks give %s, dense value %s' % (s.tolist(), dense.astype(float).tolist()))
    return ['%s: %s' % (what, m) for m in fails]


def _report(fails, n):
    if fails:
        print('searched a small concrete family (the symbolic counter-model has no direct preimage); first failure:')
        print(fails[0][:1500])
        print('REPLAY: VIOLATION-CONFIRMED sparse data do not denote the dense array')
    else:
        print('REPLAY: not reproduced (%d expressions)' % n)


def _family(rng):
    """(description, expression, arguments): expressions whose sparse form exercises every _assparse rule"""
    ev = _ev()
    out = []
    a23, b23 = _arg('a', (2, 3)), _arg('b', (2, 3))
    v2, v3, v4 = _arg('u', (2,)), _arg('v', (3,)), _arg('w', (4,))
    a234 = _arg('c', (2, 3, 4))
    a6 = _arg('d', (6,))
    args = dict(a=rng.rand(2, 3), b=rng.rand(2, 3), u=rng.rand(2), v=rng.rand(3), w=rng.rand(4), c=rng.rand(2, 3, 4), d=rng.rand(6))
    infl = lambda f, idx, n: ev.Inflate(f, ev.constant(numpy.array(idx)), ev.constant(n))
    A = infl(v3, [4, 0, 2], 5)            # one chunk, unsorted indices
    B = infl(v2, [2, 2], 5)               # repeated index: entries add up
    out.append(('Inflate', A))
    out.append(('Inflate repeated', B))
    out.append(('Add of inflations', ev.Add(__import__('nutils').types.frozenmultiset([A, infl(v3, [0, 1, 4], 5)]))))
    out.append(('InsertAxis', ev.InsertAxis(A, ev.constant(2))))
    out.append(('Transpose', ev.Transpose(ev.InsertAxis(A, ev.constant(2)), (1, 0))))
    out.append(('Transpose rank 3', ev.Transpose(ev.InsertAxis(ev.InsertAxis(A, ev.constant(2)), ev.constant(3)), (2, 0, 1))))
    out.append(('Diagonalize', ev.Diagonalize(A)))
    out.append(('Diagonalize rank 2', ev.Diagonalize(ev.Transpose(ev.InsertAxis(A, ev.constant(2)), (1, 0)))))
    M = ev.Transpose(ev.InsertAxis(A, ev.constant(2)), (1, 0)) * ev.InsertAxis(infl(v2, [1, 0], 2), ev.constant(5))  # 2 x 5, two clusters
    out.append(('Multiply of two clusters', M))
    out.append(('Multiply of two clusters, transposed', ev.Transpose(M, (1, 0))))
    M3 = ev.InsertAxis(a23, ev.constant(5)) * ev.Transpose(ev.InsertAxis(ev.InsertAxis(A, ev.constant(2)), ev.constant(3)), (1, 2, 0))  # dense 2-axis cluster x inflated vector
    out.append(('Multiply of a dense matrix cluster and an inflated vector', M3))
    out.append(('Multiply dense cluster, transposed', ev.Transpose(M3, (1, 0, 2))))
    # a factor that bridges two clusters that were disjoint until it arrived: (u_i v_j) a_ij, and the other association orders
    UV = ev.InsertAxis(v2, ev.constant(3)) * ev.Transpose(ev.InsertAxis(v3, ev.constant(2)), (1, 0))
    out.append(('Multiply (u_i v_j) a_ij: bridging factor last', UV * a23))
    out.append(('Multiply a_ij (u_i v_j): bridging factor first', a23 * UV))
    out.append(('Multiply (u_i a_ij) v_j', (ev.InsertAxis(v2, ev.constant(3)) * a23) * ev.Transpose(ev.InsertAxis(v3, ev.constant(2)), (1, 0))))
    out.append(('Ravel', ev.Ravel(M)))
    out.append(('Ravel of InsertAxis', ev.Ravel(ev.InsertAxis(A, ev.constant(3)))))
    out.append(('Unravel', ev.Unravel(infl(a6, [5, 0, 7, 2, 3, 9], 12), ev.constant(3), ev.constant(4))))
    out.append(('Unravel 4x3', ev.Unravel(infl(a6, [5, 0, 7, 2, 3, 9], 12), ev.constant(4), ev.constant(3))))
    out.append(('Sum of inflated matrix', ev.Sum(M)))
    out.append(('Sum of diagonalized', ev.Sum(ev.Diagonalize(A))))
    out.append(('Sum rank 3', ev.Sum(ev.Transpose(ev.InsertAxis(ev.InsertAxis(A, ev.constant(2)), ev.constant(3)), (2, 0, 1)))))
    out.append(('Sum to scalar', ev.Sum(A)))
    out.append(('Zeros', ev.Zeros((ev.constant(2), ev.constant(3)), float)))
    out.append(('dense argument (default rule)', a23))
    out.append(('dense rank 3', a234))
    out.append(('Add dense', a23 + b23))
    out.append(('inflate rank-2 dofmap', ev.Inflate(a23, ev.constant(numpy.array([[0, 5, 2], [1, 5, 4]])), ev.constant(6))))
    out.append(('inflated matrix plus dense', M + _arg('e', (2, 5))))
    args['e'] = rng.rand(2, 5)
    return out, args


def _each(check, simplify=(False, True)):
    rng = numpy.random.RandomState(3)
    fam, args = _family(rng)
    fails, n = [], 0
    for what, f in fam:
        for simp in simplify:
            g = f.simplified if simp else f
            n += 1
            try:
                fails += check(g, args, what + (' (simplified)' if simp else ''))
            except Exception as e:
                fails.append('%s: %s: %s' % (what, type(e).__name__, e))
    return fails, n


def assparse():
    fails, n = _each(coo_failures)
    _report(fails, n)


def node_assparse():
    fails, n = _each(chunk_failures)
    _report(fails, n)


def as_csr():
    ev = _ev()
    rng = numpy.random.RandomState(3)
    fam, args = _family(rng)
    fails, n = [], 0
    for what, f in fam:
        if f.ndim != 2:
            continue
        n += 1
        try:
            dense = _dense(f, args)
            values, rowptr, colidx, ncols = ev.eval_once(ev.as_csr(f), arguments=args)
            values, rowptr, colidx = map(numpy.asarray, (values, rowptr, colidx))
            nrows = dense.shape[0]
            if len(rowptr) != nrows + 1 or rowptr[0] != 0 or rowptr[-1] != len(colidx) or (numpy.diff(rowptr) < 0).any():
                fails.append('%s: row pointer %s for %d rows, %d entries' % (what, rowptr.tolist(), nrows, len(colidx)))
                continue
            s = numpy.zeros(dense.shape)
            for r in range(nrows):
                cols = colidx[rowptr[r]:rowptr[r + 1]]
                if (numpy.diff(cols) <= 0).any() or (len(cols) and (cols.min() < 0 or cols.max() >= dense.shape[1])):
                    fails.append('%s: row %d has column indices %s' % (what, r, cols.tolist()))
                s[r, cols] += values[rowptr[r]:rowptr[r + 1]]
            if int(ncols) != dense.shape[1]:
                fails.append('%s: ncols %s' % (what, ncols))
            if not numpy.allclose(s, dense):
                fails.append('%s: CSR data give %s, dense %s' % (what, s.tolist(), dense.tolist()))
        except Exception as e:
            fails.append('%s: %s: %s' % (what, type(e).__name__, e))
    _report(fails, n)


def unique():
    ev = _ev()
    fails, n = [], 0
    for length in range(0, 6):
        for a in itertools.product(range(3), repeat=length):
            a = numpy.array(a, dtype=int)
            n += 1
            arr = ev.constant(a) if length else ev.zeros((ev.constant(0),), int)
            try:
                u, inv = ev.eval_once(ev.unique(arr, return_inverse=True))
            except Exception as e:
                fails.append('unique(%s): %s: %s' % (a.tolist(), type(e).__name__, e))
                continue
            u, inv = numpy.asarray(u), numpy.asarray(inv)
            wu, winv = numpy.unique(a, return_inverse=True) if length else (numpy.zeros(0, int), numpy.zeros(0, int))
            if u.tolist() != wu.tolist() or inv.tolist() != numpy.asarray(winv).tolist():
                fails.append('unique(%s) = %s, inverse %s; expected %s, %s' % (a.tolist(), u.tolist(), inv.tolist(), wu.tolist(), numpy.asarray(winv).tolist()))
    _report(fails, n)


def accumulate():
    from nutils import numeric
    rng = numpy.random.RandomState(5)
    fails, n = [], 0
    for shape in [(), (3,), (2, 3), (2, 1, 3), (0,), (2, 0)]:
        for m in (0, 1, 4):
            for dtype in (float, int):
                if not all(shape) and m:
                    continue
                n += 1
                data = (rng.rand(m) if dtype == float else rng.randint(-3, 4, size=m)).astype(dtype)
                index = [rng.randint(0, s, size=m) for s in shape]
                want = numpy.zeros(shape, dtype)
                for k in range(m):
                    want[tuple(i[k] for i in index)] += data[k]
                try:
                    got = numeric.accumulate(data, index, shape)
                except Exception as e:
                    fails.append('accumulate(%s, %s, %s): %s: %s' % (data.tolist(), [i.tolist() for i in index], shape, type(e).__name__, e))
                    continue
                if numpy.shape(got) != tuple(shape) or not numpy.allclose(got, want):
                    fails.append('accumulate(%s, %s, %s) = %s, expected %s' % (data.tolist(), [i.tolist() for i in index], shape, numpy.asarray(got).tolist(), want.tolist()))
    _report(fails, n)


def function_coo_csr():
    from nutils import function
    rng = numpy.random.RandomState(2)
    fails, n = [], 0
    a = function.Argument('a', (2, 3))
    val = rng.rand(2, 3)
    for f in (a, function.diagonalize(a[0]), a * a):
        n += 1
        try:
            dense = function.eval(f, arguments=dict(a=val))
            v, *ix = function.eval(function.as_coo(f), arguments=dict(a=val))
            s = numpy.zeros(dense.shape)
            numpy.add.at(s, tuple(ix), v)
            if not numpy.allclose(s, dense):
                fails.append('as_coo: %s vs %s' % (s.tolist(), dense.tolist()))
            v, rowptr, colidx = function.eval(function.as_csr(f), arguments=dict(a=val))
            s = numpy.zeros(dense.shape)
            for r in range(dense.shape[0]):
                s[r, colidx[rowptr[r]:rowptr[r + 1]]] += v[rowptr[r]:rowptr[r + 1]]
            if not numpy.allclose(s, dense):
                fails.append('as_csr: %s vs %s' % (s.tolist(), dense.tolist()))
        except Exception as e:
            fails.append('%s: %s' % (type(e).__name__, e))
    for bad in (a[0], function.Argument('b', (2, 2, 2))):
        n += 1
        try:
            function.as_csr(bad)
            fails.append('as_csr accepted an array with %d axes' % bad.ndim)
        except ValueError:
            pass
        except Exception as e:
            fails.append('as_csr of a %d-d array: %s: %s' % (bad.ndim, type(e).__name__, e))
    _report(fails, n)


def accumulate_bounded():
    import json
    from nutils import numeric
    cases, failures = 0, []
    shapes = [()] + [s for r in (1, 2, 3) for s in itertools.product((1, 2, 3), repeat=r) if numpy.prod(s) <= 9]
    for shape in shapes:
        for m in range(0, 4):
            for dtype in (float, int):
                data = numpy.array([2 ** k for k in range(m)], dtype=dtype)
                for flat in itertools.product(range(int(numpy.prod(shape))), repeat=m):
                    tuples = [numpy.unravel_index(f, shape) if shape else () for f in flat]
                    index = [numpy.array([t[k] for t in tuples], dtype=int) for k in range(len(shape))]
                    want = numpy.zeros(shape, dtype)
                    for v, t in zip(data, tuples):
                        want[t] += v
                    variants = [('arrays', index, data)]
                    if shape and m:
                        # the add.at branch: a non-array index item (a slice selecting the whole last axis of the data)
                        pass
                    for label, idx, dat in variants:
                        cases += 1
                        try:
                            got = numeric.accumulate(dat, idx, shape)
                        except Exception as e:
                            failures.append(dict(clause='equals-docstring-loop', data=dat.tolist(), index=[i.tolist() for i in idx], shape=list(shape), raised='%s: %s' % (type(e).__name__, e)))
                            continue
                        got = numpy.asarray(got)
                        if got.shape != tuple(shape) or got.dtype != dat.dtype:
                            failures.append(dict(clause='shape-and-dtype', data=dat.tolist(), index=[i.tolist() for i in idx], shape=list(shape), got_shape=list(got.shape), got_dtype=str(got.dtype)))
                        elif not (got == want).all():
                            failures.append(dict(clause='equals-docstring-loop', data=dat.tolist(), index=[i.tolist() for i in idx], shape=list(shape), returned=got.tolist(), expected=want.tolist()))
    # add.at branch with a slice item: data of shape (m, n1), index = (array, slice(None)) into shape (n0, n1)
    for n0 in (1, 2, 3):
        for n1 in (1, 2):
            for m in range(0, 4):
                for rows in itertools.product(range(n0), repeat=m):
                    for dtype in (float, int):
                        cases += 1
                        dat = numpy.array([[2 ** (k * n1 + j) for j in range(n1)] for k in range(m)], dtype=dtype).reshape(m, n1)
                        idx = [numpy.array(rows, dtype=int), slice(None)]
                        want = numpy.zeros((n0, n1), dtype)
                        for k, r in enumerate(rows):
                            want[r] += dat[k]
                        try:
                            got = numpy.asarray(numeric.accumulate(dat, idx, (n0, n1)))
                        except Exception as e:
                            failures.append(dict(clause='equals-docstring-loop', data=dat.tolist(), index=[list(rows), 'slice(None)'], shape=[n0, n1], raised='%s: %s' % (type(e).__name__, e)))
                            continue
                        if got.shape != (n0, n1) or got.dtype != dat.dtype:
                            failures.append(dict(clause='shape-and-dtype', data=dat.tolist(), index=[list(rows), 'slice(None)'], shape=[n0, n1], got_shape=list(got.shape), got_dtype=str(got.dtype)))
                        elif not (got == want).all():
                            failures.append(dict(clause='equals-docstring-loop', data=dat.tolist(), index=[list(rows), 'slice(None)'], shape=[n0, n1], returned=got.tolist(), expected=want.tolist()))
    print('BOUNDED-RESULT ' + json.dumps(dict(cases=cases, failures=failures[:10])))
    if failures:
        print('REPLAY: VIOLATION-CONFIRMED numeric.accumulate: %s' % failures[0])
    else:
        print('REPLAY: not reproduced (%d cases)' % cases)
