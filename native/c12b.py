"""Native searches for failing inputs of the basis functions under contract in C12 (run after a failed obligation).
Every routine builds REAL nutils bases from small tables and compares the real answers with the brute-force definition."""
import itertools, numpy


def _index_coords(nelems):
    from nutils import function, transformseq
    tr = transformseq.IndexTransforms(0, nelems)
    return function.transforms_index('X', tr), function.transforms_coords('X', tr)


def _plain(dofs, ndofs):
    from nutils import function
    index, coords = _index_coords(len(dofs))
    coeffs = [numpy.array([[float(10 * e + k)] for k in range(len(d))], dtype=float).reshape(len(d), 1) for e, d in enumerate(dofs)]
    return function.PlainBasis(coeffs, [numpy.array(d, dtype=int) for d in dofs], ndofs, index, coords), coeffs


def _tables(max_elems=3, ndofs=3, max_local=3):
    """small per-element dof lists: any order, repetitions allowed"""
    cands = [()]
    for k in range(1, max_local + 1):
        cands += list(itertools.product(range(ndofs), repeat=k))
    for ne in range(1, max_elems + 1):  # PlainBasis needs at least one element (Elemwise of an empty table is rejected)
        prod = itertools.product(cands, repeat=ne)
        for t in (prod if ne <= 2 else itertools.islice(prod, 0, 40000, 13)):
            yield list(map(list, t))


def run_computed_support():
    ndofs = 3
    for dofs in _tables():
        try:
            b, _ = _plain(dofs, ndofs)
            sup = b._computed_support
        except Exception as e:
            print('PlainBasis(dofs=%r, ndofs=%d)._computed_support raised %s: %s' % (dofs, ndofs, type(e).__name__, e))
            print('REPLAY: VIOLATION-CONFIRMED valid basis rejected')
            return
        want = [[e for e, d in enumerate(dofs) if dof in d] for dof in range(ndofs)]
        got = [list(map(int, s)) for s in sup]
        if got != want:
            print('PlainBasis(dofs=%r, ndofs=%d)._computed_support = %r ; elements having each dof (increasing): %r' % (dofs, ndofs, got, want))
            print('REPLAY: VIOLATION-CONFIRMED support is not the inverse of get_dofs')
            return
    print('REPLAY: not reproduced on the small tables enumerated')


def run_int_or_vec():
    """get_support / get_dofs dispatch of the base class on PlainBasis instances: int (incl. negative), bool mask, int array."""
    ndofs = 3
    for dofs in _tables(max_elems=2, max_local=2):
        ne = len(dofs)
        b, _ = _plain(dofs, ndofs)
        for name, f, nargs, table in (('get_dofs', b.get_dofs, ne, dofs), ('get_support', b.get_support, ndofs, [[e for e, d in enumerate(dofs) if dof in d] for dof in range(ndofs)])):
            def call(arg):
                try:
                    return list(map(int, f(arg)))
                except IndexError:
                    return 'IndexError'
                except Exception as e:
                    return '%s: %s' % (type(e).__name__, e)

            def bad(arg, got, want, why):
                print('PlainBasis(dofs=%r, ndofs=%d).%s(%r) = %r ; expected %r (%s)' % (dofs, ndofs, name, arg, got, want, why))
                print('REPLAY: VIOLATION-CONFIRMED %s dispatch' % name)
                return True
            for a in range(-nargs - 2, nargs + 2):
                got = call(a)
                want = (table[a % nargs] if -nargs <= a < nargs else 'IndexError')
                if (sorted(got) if isinstance(got, list) and isinstance(want, list) and name == 'get_dofs' else got) != (sorted(want) if isinstance(want, list) and name == 'get_dofs' else want) \
                        or (name == 'get_dofs' and isinstance(got, list) and got != want):
                    if bad(a, got, want, 'int argument: the normalised index, IndexError outside [-n, n)'):
                        return
            for k in range(0, 3):
                for arr in itertools.product(range(-1, nargs + 1), repeat=k):
                    got = call(numpy.array(arr, dtype=int))
                    if any(x < 0 or x >= nargs for x in arr):
                        want = 'IndexError'
                    else:
                        want = sorted(set(x for a in arr for x in table[a]))
                    if isinstance(want, list) and isinstance(got, list) and len(set(arr)) == 1 and name == 'get_dofs':
                        ok = set(got) == set(want)  # a single distinct entry: f's own array is returned (any order)
                    else:
                        ok = got == want
                    if not ok and bad(list(arr), got, want, 'int array: union over the entries, IndexError outside [0, n)'):
                        return
            for mask in itertools.product([False, True], repeat=nargs):
                got = call(numpy.array(mask, dtype=bool))
                sel = [i for i, m in enumerate(mask) if m]
                want = sorted(set(x for a in sel for x in table[a]))
                ok = (set(got) == set(want)) if (len(sel) == 1 and isinstance(got, list)) else got == want
                if not ok and bad(list(mask), got, want, 'bool mask = its nonzero positions'):
                    return
            for n2 in (nargs - 1, nargs + 1):
                if n2 >= 0:
                    got = call(numpy.zeros(n2, dtype=bool))
                    if got != 'IndexError' and bad('bool mask of length %d' % n2, got, 'IndexError', 'mask of the wrong length'):
                        return
    print('REPLAY: not reproduced on the small tables enumerated')
