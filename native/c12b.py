"""Native searches for failing inputs of the basis functions under contract in C12 (run after a failed obligation).
Every routine builds REAL nutils bases from small tables and compares the real answers with the brute-force definition."""
import itertools, numpy


def _index_coords(nelems):
    from nutils import function, transformseq
    tr = transformseq.IndexTransforms(0, nelems)
    return function.transforms_index('X', tr), function.transforms_coords('X', tr)


def _plain(dofs, ndofs):
    from nutils import function
    index, coords = _index_coords(len(dofs))
    coeffs = [numpy.array([[float(10 * e + k)] for k in range(len(d))], dtype=float).reshape(len(d), 1) for e, d in enumerate(dofs)]
    return function.PlainBasis(coeffs, [numpy.array(d, dtype=int) for d in dofs], ndofs, index, coords), coeffs


def _tables(max_elems=3, ndofs=3, max_local=3):
    """small per-element dof lists: any order, repetitions allowed"""
    cands = [()]
    for k in range(1, max_local + 1):
        cands += list(itertools.product(range(ndofs), repeat=k))
    for ne in range(1, max_elems + 1):  # PlainBasis needs at least one element (Elemwise of an empty table is rejected)
        prod = itertools.product(cands, repeat=ne)
        for t in (prod if ne <= 2 else itertools.islice(prod, 0, 40000, 13)):
            yield list(map(list, t))


def run_computed_support():
    ndofs = 3
    for dofs in _tables():
        try:
            b, _ = _plain(dofs, ndofs)
            sup = b._computed_support
        except Exception as e:
            print('PlainBasis(dofs=%r, ndofs=%d)._computed_support raised %s: %s' % (dofs, ndofs, type(e).__name__, e))
            print('REPLAY: VIOLATION-CONFIRMED valid basis rejected')
            return
        want = [[e for e, d in enumerate(dofs) if dof in d] for dof in range(ndofs)]
        got = [list(map(int, s)) for s in sup]
        if got != want:
            print('PlainBasis(dofs=%r, ndofs=%d)._computed_support = %r ; elements having each dof (increasing): %r' % (dofs, ndofs, got, want))
            print('REPLAY: VIOLATION-CONFIRMED support is not the inverse of get_dofs')
            return
    print('REPLAY: not reproduced on the small tables enumerated')


def run_int_or_vec(strict=False):
    # strict: the documented result for an array argument (always strictly increasing); otherwise a single distinct entry may
    # deliver f's own array (what the code does; candidate defect recorded in notes/C12-basis.md)
    """get_support / get_dofs dispatch of the base class on PlainBasis instances: int (incl. negative), bool mask, int array."""
    ndofs = 3
    for dofs in _tables(max_elems=2, max_local=2):
        ne = len(dofs)
        b, _ = _plain(dofs, ndofs)
        for name, f, nargs, table in (('get_dofs', b.get_dofs, ne, dofs), ('get_support', b.get_support, ndofs, [[e for e, d in enumerate(dofs) if dof in d] for dof in range(ndofs)])):
            def call(arg):
                try:
                    return list(map(int, f(arg)))
                except IndexError:
                    return 'IndexError'
                except Exception as e:
                    return '%s: %s' % (type(e).__name__, e)

            def bad(arg, got, want, why):
                print('PlainBasis(dofs=%r, ndofs=%d).%s(%r) = %r ; expected %r (%s)' % (dofs, ndofs, name, arg, got, want, why))
                print('REPLAY: VIOLATION-CONFIRMED %s dispatch' % name)
                return True
            for a in range(-nargs - 2, nargs + 2):
                got = call(a)
                want = (table[a % nargs] if -nargs <= a < nargs else 'IndexError')
                if (sorted(got) if isinstance(got, list) and isinstance(want, list) and name == 'get_dofs' else got) != (sorted(want) if isinstance(want, list) and name == 'get_dofs' else want) \
                        or (name == 'get_dofs' and isinstance(got, list) and got != want):
                    if bad(a, got, want, 'int argument: the normalised index, IndexError outside [-n, n)'):
                        return
            for k in range(0, 3):
                for arr in itertools.product(range(-1, nargs + 1), repeat=k):
                    got = call(numpy.array(arr, dtype=int))
                    if any(x < 0 or x >= nargs for x in arr):
                        want = 'IndexError'
                    else:
                        want = sorted(set(x for a in arr for x in table[a]))
                    if isinstance(want, list) and isinstance(got, list) and len(set(arr)) == 1 and name == 'get_dofs' and not strict:
                        ok = set(got) == set(want)  # a single distinct entry: f's own array is returned (any order)
                    else:
                        ok = got == want
                    if not ok and bad(list(arr), got, want, 'int array: union over the entries, IndexError outside [0, n)'):
                        return
            for mask in itertools.product([False, True], repeat=nargs):
                got = call(numpy.array(mask, dtype=bool))
                sel = [i for i, m in enumerate(mask) if m]
                want = sorted(set(x for a in sel for x in table[a]))
                ok = (set(got) == set(want)) if (len(sel) == 1 and isinstance(got, list) and not strict) else got == want
                if not ok and bad(list(mask), got, want, 'bool mask = its nonzero positions'):
                    return
            for n2 in (nargs - 1, nargs + 1):
                if n2 >= 0:
                    got = call(numpy.zeros(n2, dtype=bool))
                    if got != 'IndexError' and bad('bool mask of length %d' % n2, got, 'IndexError', 'mask of the wrong length'):
                        return
    print('REPLAY: not reproduced on the small tables enumerated')


def _report(cls, desc, what, got, want):
    print('%s %s: %s = %r ; expected %r' % (cls, desc, what, got, want))
    print('REPLAY: VIOLATION-CONFIRMED %s' % cls)
    return True


def _call(f, *a):
    try:
        r = f(*a)
        return numpy.asarray(r).tolist()
    except Exception as e:
        return '%s' % type(e).__name__


def run_bases(cls):
    """Build real bases of class `cls` from small tables; compare get_dofs / get_coefficients / get_support with the definition."""
    from nutils import function
    rng = numpy.random.RandomState(0)
    if cls == 'PlainBasis':
        for dofs in _tables(max_elems=2, max_local=2):
            b, coeffs = _plain(dofs, 3)
            for e in range(len(dofs)):
                if _call(b.get_dofs, e) != dofs[e] and _report(cls, 'dofs=%r' % dofs, 'get_dofs(%d)' % e, _call(b.get_dofs, e), dofs[e]):
                    return
                if _call(b.get_coefficients, e) != coeffs[e].tolist() and _report(cls, 'dofs=%r' % dofs, 'get_coefficients(%d)' % e, _call(b.get_coefficients, e), coeffs[e].tolist()):
                    return
    elif cls == 'DiscontBasis':
        for counts in itertools.chain.from_iterable(itertools.product(range(0, 4), repeat=n) for n in (1, 2, 3)):
            if sum(counts) == 0:
                continue
            index, coords = _index_coords(len(counts))
            coeffs = [numpy.array([[float(10 * e + k)] for k in range(c)], dtype=float).reshape(c, 1) for e, c in enumerate(counts)]
            try:
                b = function.DiscontBasis(coeffs, index, coords)
            except Exception as ex:
                print('DiscontBasis(rows per element %r) raised %s: %s' % (counts, type(ex).__name__, ex))
                continue
            off = numpy.cumsum((0,) + counts)
            for e in range(len(counts)):
                want = list(range(off[e], off[e + 1]))
                if _call(b.get_dofs, e) != want and _report(cls, 'rows per element %r' % (counts,), 'get_dofs(%d)' % e, _call(b.get_dofs, e), want):
                    return
                if _call(b.get_coefficients, e) != coeffs[e].tolist() and _report(cls, 'rows per element %r' % (counts,), 'get_coefficients(%d)' % e, _call(b.get_coefficients, e), coeffs[e].tolist()):
                    return
            nd = int(off[-1])
            for d in range(-nd - 1, nd + 1):
                want = [int(numpy.searchsorted(off, d % nd, side='right') - 1)] if -nd <= d < nd else 'IndexError'
                if _call(b.get_support, d) != want and _report(cls, 'rows per element %r' % (counts,), 'get_support(%d)' % d, _call(b.get_support, d), want):
                    return
    elif cls in ('MaskedBasis', 'PrunedBasis'):
        ndofs = 4
        tables = [[[0], [2, 3], [1, 3], [2]], [[3, 0], [0, 1], [2, 1]], [[1, 1], [0, 3]], [[2, 0, 1], [], [3]]]
        for dofs in tables:
            parent, pcoeffs = _plain(dofs, ndofs)
            ne = len(dofs)
            psupp = [[e for e, d in enumerate(dofs) if dof in d] for dof in range(ndofs)]
            if cls == 'MaskedBasis':
                for k in range(0, ndofs + 1):
                    for ind in itertools.combinations(range(ndofs), k):
                        b = function.MaskedBasis(parent, numpy.array(ind, dtype=int))
                        desc = 'parent dofs=%r indices=%r' % (dofs, list(ind))
                        for e in range(ne):
                            keep = [p for p, d in enumerate(dofs[e]) if d in ind]
                            want = [ind.index(dofs[e][p]) for p in keep]
                            if _call(b.get_dofs, e) != want and _report(cls, desc, 'get_dofs(%d)' % e, _call(b.get_dofs, e), want):
                                return
                            wantc = pcoeffs[e][keep].tolist()
                            if _call(b.get_coefficients, e) != wantc and _report(cls, desc, 'get_coefficients(%d)' % e, _call(b.get_coefficients, e), wantc):
                                return
                        for d in range(-k - 1, k + 1):
                            want = psupp[ind[d]] if -k <= d < k else 'IndexError'
                            if _call(b.get_support, d) != want and _report(cls, desc, 'get_support(%d)' % d, _call(b.get_support, d), want):
                                return
            else:
                for k in range(1, ne + 1):
                    for tm in itertools.combinations(range(ne), k):
                        index, coords = _index_coords(k)
                        b = function.PrunedBasis(parent, numpy.array(tm, dtype=int), index, coords)
                        if not (numpy.diff(b._dofmap) > 0).all():
                            continue  # class invariant assumed by the contract (dofmap strictly increasing) not established: the recorded candidate defect
                        desc = 'parent dofs=%r transmap=%r' % (dofs, list(tm))
                        dofmap = sorted(set(d for e in tm for d in dofs[e]))
                        for e in range(k):
                            want = [dofmap.index(d) for d in dofs[tm[e]]]
                            if _call(b.get_dofs, e) != want and _report(cls, desc, 'get_dofs(%d)' % e, _call(b.get_dofs, e), want):
                                return
                            wantc = pcoeffs[tm[e]].tolist()
                            if _call(b.get_coefficients, e) != wantc and _report(cls, desc, 'get_coefficients(%d)' % e, _call(b.get_coefficients, e), wantc):
                                return
    elif cls == 'StructuredBasis':
        for trial in range(300):
            r = int(rng.randint(1, 4))
            T = [int(rng.randint(1, 4)) for _ in range(r)]
            N = [int(rng.randint(1, 5)) for _ in range(r)]
            start = [rng.randint(0, N[i] + 1, size=T[i]) for i in range(r)]
            lens = [rng.randint(0, 3, size=T[i]) for i in range(r)]
            if any(l.sum() == 0 for l in lens):
                continue
            coeffs = [[(10. * i + 1 + e + 0.25 * numpy.arange(lens[i][e], dtype=float)).reshape(-1, 1) for e in range(T[i])] for i in range(r)]
            index, coords = _index_coords(int(numpy.prod(T)))
            try:
                b = function.StructuredBasis(coeffs, start, [s + l for s, l in zip(start, lens)], N, T, index, coords)
            except Exception as ex:
                continue
            desc = 'transforms_shape=%r dofs_shape=%r start_dofs=%r ndofs=%r' % (T, N, [s.tolist() for s in start], [l.tolist() for l in lens])
            for ie in range(int(numpy.prod(T))):
                e = numpy.unravel_index(ie, T)
                want, wantc = [], []
                for p in itertools.product(*[range(lens[i][e[i]]) for i in range(r)]):
                    d = 0
                    c = 1.
                    for i in range(r):
                        d = d * N[i] + (start[i][e[i]] + p[i]) % N[i]
                        c *= coeffs[i][e[i]][p[i], 0]
                    want.append(int(d))
                    wantc.append(c)
                if _call(b.get_dofs, ie) != want and _report(cls, desc, 'get_dofs(%d)' % ie, _call(b.get_dofs, ie), want):
                    return
                got = _call(b.get_coefficients, ie)
                gotc = numpy.asarray(got, dtype=float).ravel().tolist() if not isinstance(got, str) else got
                if (isinstance(gotc, str) or len(gotc) != len(wantc) or not numpy.allclose(gotc, wantc)) and _report(cls, desc, 'get_coefficients(%d) (degree 0: products of the per-axis constants)' % ie, gotc, wantc):
                    return
    print('REPLAY: not reproduced on the small bases enumerated')


def run_invmap():
    from nutils import numeric
    for n in range(0, 5):
        for k in range(0, n + 1):
            for ind in itertools.permutations(range(n), k):
                for miss in (-1, k):
                    got = numeric.invmap(numpy.array(ind, dtype=int), length=n, missing=miss).tolist()
                    want = [ind.index(j) if j in ind else miss for j in range(n)]
                    if got != want:
                        print('invmap(%r, length=%d, missing=%d) = %r ; expected %r' % (list(ind), n, miss, got, want))
                        print('REPLAY: VIOLATION-CONFIRMED invmap')
                        return
    print('REPLAY: not reproduced on the small inputs enumerated')


def run_pruned_single():
    """candidate defect: a one-element subset of a topology whose element repeats a dof (periodic, one element across)"""
    from nutils import mesh, topology
    dom, geom = mesh.rectilinear([2, 1], periodic=[1])
    sub = topology.SubsetTopology(dom, [dom.references[0], dom.references[1].empty])
    sb = sub.basis('std', degree=1)
    dofs = sb.get_dofs(0).tolist()
    supp = [sb.get_support(d).tolist() for d in range(sb.ndofs)]
    print('PrunedBasis ndofs=%d dofmap=%r get_dofs(0)=%r supports=%r' % (sb.ndofs, sb._dofmap.tolist(), dofs, supp))
    bad = [d for d in range(sb.ndofs) if (0 in supp[d]) != (d in dofs)]
    if bad:
        print('dofs %r: get_support lists element 0 but get_dofs(0) does not contain them' % bad)
        print('REPLAY: VIOLATION-CONFIRMED dof->elements and element->dofs are not inverses')
