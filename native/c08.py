import numpy


def ext(n):
    from nutils import numeric
    rng = numpy.random.RandomState(0)
    for _ in range(50):
        A = rng.randint(-3, 4, size=(n, n - 1)).astype(float)
        e = numeric.ext(A)
        M = numpy.concatenate([A, e[:, None]], axis=1)
        sign = -1 if n == 2 else 1
        gram = numpy.linalg.det(A.T @ A) if n > 1 else 1.
        if abs(e @ A).max(initial=0) > 1e-9 or abs(numpy.linalg.det(M) - sign * (e @ e)) > 1e-9 or abs(e @ e - gram) > 1e-9:
            print('ext(%s) = %s: ext.A = %s, det = %s, ext.ext = %s' % (A.tolist(), e.tolist(), (e @ A).tolist(), numpy.linalg.det(M), e @ e))
            print('REPLAY: VIOLATION-CONFIRMED')
            return
    print('REPLAY: not reproduced')


# ---- orientation bookkeeping of edge transforms (contracts/c08_edges.py); the counter-models are real matrices, the replays
# ---- search random small integer matrices (the identities are polynomial, so a violation shows on almost every input)

def _rand_updim(rng, n, flipped=None):
    from nutils import transform
    L = rng.randint(-3, 4, size=(n, n - 1)).astype(float)
    b = rng.randint(-2, 3, size=n).astype(float)
    from nutils import types
    return transform.Updim(types.arraydata(L), types.arraydata(b), bool(rng.randint(0, 2)) if flipped is None else flipped)


def _confirm(msg):
    print(msg)
    print('REPLAY: VIOLATION-CONFIRMED')


def tensor_ext(which, d, m):
    from nutils import transform
    rng = numpy.random.RandomState(0)
    for _ in range(60):
        e = _rand_updim(rng, d)
        try:
            t = transform.TensorEdge1(e, m) if which == 1 else transform.TensorEdge2(m, e)
            want = numpy.concatenate([e.ext, numpy.zeros(m)]) if which == 1 else numpy.concatenate([numpy.zeros(m), e.ext])
            woff = numpy.concatenate([e.offset, numpy.zeros(m)]) if which == 1 else numpy.concatenate([numpy.zeros(m), e.offset])
            bad = t.todims != d + m or t.fromdims != d + m - 1 or numpy.asarray(t.ext).shape != want.shape or abs(numpy.asarray(t.ext) - want).max(initial=0) > 1e-9 or abs(t.offset - woff).max(initial=0) > 1e-9
            got = numpy.asarray(t.ext).tolist()
        except Exception as ex:
            bad, got = True, 'raised %s: %s' % (type(ex).__name__, ex)
        if bad:
            return _confirm('TensorEdge%d(factor linear=%s flipped=%s, other dims %d): ext = %s, expected the factor ext %s padded with zeros: %s' % (which, e.linear.tolist(), e.isflipped, m, got, numpy.asarray(e.ext).tolist(), want.tolist()))
    print('REPLAY: not reproduced')


def scaled_ext(n):
    from nutils import transform
    rng = numpy.random.RandomState(0)
    for _ in range(80):
        e = _rand_updim(rng, n)
        A = rng.randint(-3, 4, size=(n, n)).astype(float)
        if abs(numpy.linalg.det(A)) < .5:
            continue
        from nutils import types
        sq = transform.Square(types.arraydata(A), types.arraydata(rng.randint(-2, 3, size=n).astype(float)))
        try:
            t = transform.ScaledUpdim(sq, e)
            lhs, rhs = A.T @ numpy.asarray(t.ext), abs(numpy.linalg.det(A)) * numpy.asarray(e.ext)
            bad = abs(lhs - rhs).max() > 1e-8 or abs(t.linear - A @ e.linear).max(initial=0) > 1e-9 or abs(t.offset - (A @ e.offset + sq.offset)).max() > 1e-9
            info = 'A^T ext = %s, |det A| factor ext = %s; offset %s, image of the edge offset %s' % (lhs.tolist(), rhs.tolist(), t.offset.tolist(), (A @ e.offset + sq.offset).tolist())
        except Exception as ex:
            bad, info = True, 'raised %s: %s' % (type(ex).__name__, ex)
        if bad:
            return _confirm('ScaledUpdim(A=%s (det %g), edge linear=%s flipped=%s): %s' % (A.tolist(), numpy.linalg.det(A), e.linear.tolist(), e.isflipped, info))
    print('REPLAY: not reproduced')


def _family(name):
    from nutils import element
    line, tri, tet = element.LineReference(), element.TriangleReference(), element.TetrahedronReference()
    return {'line': line, 'triangle': tri, 'tetrahedron': tet, 'square': line * line, 'cube': (line * line) * line, 'cube-right-nested': line * (line * line),
            'triangle x line': tri * line, 'line x triangle': line * tri}[name]


def outward(name):
    ref = _family(name)
    c = numpy.asarray(ref.vertices, dtype=float).mean(0)
    nfaces = len(ref.edge_refs)
    try:
        edges = ref.edge_transforms
        if len(edges) != nfaces:
            return _confirm('%s: %d edge transforms for %d faces' % (name, len(edges), nfaces))
        for k, e in enumerate(edges):
            ext = numpy.asarray(e.ext)
            if ext @ (e.offset - c) <= 0:
                return _confirm('%s edge %d (%r, linear %s, isflipped %s): ext = %s points INTO the element (ext.(point on edge - centroid) = %g)' % (name, k, e, e.linear.tolist(), e.isflipped, ext.tolist(), ext @ (e.offset - c)))
            if abs(ext @ e.linear).max(initial=0) > 1e-12:
                return _confirm('%s edge %d: ext %s not orthogonal to the face %s' % (name, k, ext.tolist(), e.linear.tolist()))
    except Exception as ex:
        return _confirm('%s: raised %s: %s' % (name, type(ex).__name__, ex))
    print('REPLAY: not reproduced')


def simplex_edge(n, iedge, inverted):
    from nutils import transform
    try:
        e = transform.SimplexEdge(n, iedge, inverted)
        verts = numpy.concatenate([numpy.zeros((1, n)), numpy.eye(n)])
        face = numpy.delete(verts, iedge, axis=0)
        img = numpy.concatenate([e.offset[None], (e.offset[:, None] + e.linear).T])
        if img.shape != face.shape or abs(img - face).max(initial=0) > 1e-12:
            return _confirm('SimplexEdge(%d, %d): maps the reference vertices to %s, expected the face %s' % (n, iedge, img.tolist(), face.tolist()))
        s = numpy.asarray(e.ext) @ (e.offset - 1 / (n + 1))
        if (s >= 0) if inverted else (s <= 0):
            return _confirm('SimplexEdge(%d, %d, inverted=%s): ext = %s, ext.(face point - centroid) = %g has the wrong sign' % (n, iedge, inverted, numpy.asarray(e.ext).tolist(), s))
    except Exception as ex:
        return _confirm('SimplexEdge(%d, %d, %s): raised %s: %s' % (n, iedge, inverted, type(ex).__name__, ex))
    print('REPLAY: not reproduced')


def flipped(kind, dims):
    from nutils import transform
    rng = numpy.random.RandomState(0)
    for _ in range(40):
        try:
            if kind == 'SimplexEdge':
                x = transform.SimplexEdge(*dims)
            else:
                e = _rand_updim(rng, dims[0])
                if kind == 'Updim':
                    x = e
                elif kind == 'ScaledUpdim':
                    A = rng.randint(-3, 4, size=(dims[0], dims[0])).astype(float)
                    if abs(numpy.linalg.det(A)) < .5:
                        continue
                    from nutils import types
                    x = transform.ScaledUpdim(transform.Square(types.arraydata(A), types.arraydata(numpy.zeros(dims[0]))), e)
                else:
                    x = transform.TensorEdge1(e, dims[1]) if kind == 'TensorEdge1' else transform.TensorEdge2(dims[1], e)
            f = x.flipped
            bad = type(f) != type(x) or f.isflipped == x.isflipped or abs(f.linear - x.linear).max(initial=0) > 0 or abs(f.offset - x.offset).max(initial=0) > 0 \
                or abs(numpy.asarray(f.ext) + numpy.asarray(x.ext)).max(initial=0) > 1e-12
            info = 'flipped: %r isflipped %s ext %s' % (f, f.isflipped, numpy.asarray(f.ext).tolist())
        except Exception as ex:
            bad, info, x = True, 'raised %s: %s' % (type(ex).__name__, ex), None
        if bad:
            return _confirm('%s%r: original %r isflipped %s ext %s; %s' % (kind, tuple(dims), x, getattr(x, 'isflipped', None), numpy.asarray(x.ext).tolist() if x is not None else None, info))
    print('REPLAY: not reproduced')
