import numpy


def ext(n):
    from nutils import numeric
    rng = numpy.random.RandomState(0)
    for _ in range(50):
        A = rng.randint(-3, 4, size=(n, n - 1)).astype(float)
        e = numeric.ext(A)
        M = numpy.concatenate([A, e[:, None]], axis=1)
        sign = -1 if n == 2 else 1
        gram = numpy.linalg.det(A.T @ A) if n > 1 else 1.
        if abs(e @ A).max(initial=0) > 1e-9 or abs(numpy.linalg.det(M) - sign * (e @ e)) > 1e-9 or abs(e @ e - gram) > 1e-9:
            print('ext(%s) = %s: ext.A = %s, det = %s, ext.ext = %s' % (A.tolist(), e.tolist(), (e @ A).tolist(), numpy.linalg.det(M), e @ e))
            print('REPLAY: VIOLATION-CONFIRMED')
            return
    print('REPLAY: not reproduced')
