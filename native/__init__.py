"""Native replay helpers: run under /venv/bin/python against the real nutils in /repo/src."""
