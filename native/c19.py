"""Native replay for C19: namespace expressions with repeated indices."""


def trace():
    from nutils import function
    from nutils.expression_v2 import Namespace, ExpressionSyntaxError
    import numpy
    ns = Namespace()
    ns.A = function.Array.cast(numpy.arange(9.).reshape(3, 3))
    ns.B = function.Array.cast(numpy.arange(27.).reshape(3, 3, 3))
    ns.C = function.Array.cast(numpy.arange(6.).reshape(2, 3))
    ns.v = function.Array.cast(numpy.arange(3.))
    A, B, C, v = [numpy.asarray(getattr(ns, k).eval()) for k in 'ABCv']
    cases = [('A_ii', numpy.trace(A)), ('A_ij v_j', A @ v), ('B_iij', numpy.einsum('iij->j', B)), ('B_iji', numpy.einsum('iji->j', B)), ('A_ij A_ij', (A * A).sum()),
             ('B_ijj v_i', numpy.einsum('ijj,i->', B, v))]
    bad = ['B_iii', 'A_ii v_i', 'C_ii', 'A_ij v_j v_j']
    for expr, want in cases:
        try:
            got = numpy.asarray((expr @ ns).eval())
        except Exception as e:
            print('%r raised %s: %s' % (expr, type(e).__name__, str(e)[:80]))
            print('REPLAY: VIOLATION-CONFIRMED a valid expression is rejected')
            return
        if got.shape != numpy.shape(want) or not numpy.allclose(got, want):
            print('%r evaluates to %s, index-notation reading gives %s' % (expr, got.tolist(), numpy.asarray(want).tolist()))
            print('REPLAY: VIOLATION-CONFIRMED')
            return
    for expr in bad:
        try:
            got = (expr @ ns)
        except ExpressionSyntaxError:
            continue
        except Exception as e:
            continue
        print('%r (index used more than twice / mismatching lengths) was accepted: shape %s' % (expr, got.shape))
        print('REPLAY: VIOLATION-CONFIRMED an invalid expression is silently evaluated')
        return
    print('REPLAY: not reproduced')


def align():
    from nutils import function
    from nutils.expression_v2 import Namespace
    import numpy, itertools
    ns = Namespace()
    ns.a, ns.b, ns.c = (function.Array.cast(numpy.arange(1., n + 1)) for n in (2, 3, 4))
    T = numpy.arange(24.).reshape(2, 3, 4)
    ns.T = function.Array.cast(T)
    for out in itertools.permutations('ijk'):
        name = 'P_' + ''.join(out)
        setattr(ns, name, 'a_i b_j c_k')
        want = numpy.einsum('i,j,k->' + ''.join(out), numpy.arange(1., 3), numpy.arange(1., 4), numpy.arange(1., 5))
        got = numpy.asarray(getattr(ns, 'P').eval()) if False else numpy.asarray(getattr(ns, name.split('_')[0]).eval())
        if got.shape != want.shape or not numpy.allclose(got, want):
            print("ns.%s = 'a_i b_j c_k' stores shape %s, expected %s" % (name, got.shape, want.shape))
            print('REPLAY: VIOLATION-CONFIRMED free indices are not ordered as requested')
            return
    print('REPLAY: not reproduced')


# ---------------------------------------------------------------- _Substring scanning (reference semantics, small exhaustive family)

_OPEN, _CLOSE = '([{<', ')]}>'


def _texts(alphabet='a (+)', maxlen=6):
    import itertools
    for n in range(maxlen + 1):
        for t in itertools.product(alphabet, repeat=n):
            yield ''.join(t)


def _ref_find(text, matchers):
    """first offset at bracket level 0 (closers counted before, openers after the test) where a matcher fires"""
    level = 0
    for k, ch in enumerate(text):
        if ch in _CLOSE:
            level -= 1
        if level == 0:
            for j, m in enumerate(matchers):
                n = m(text[k:])
                if n:
                    return j, k, n
        if ch in _OPEN:
            level += 1
    return -1, len(text), 0


def _ref_split(text, matchers):
    out = []
    first = None
    while True:
        j, k, n = _ref_find(text, matchers)
        out.append((first, text[:k]))
        if not n:
            return out
        text, first = text[k + n:], j
    

def _sub(text, pad=(1, 2)):
    from nutils.expression_v2 import _Substring
    base = 'x' * pad[0] + text + ')' * pad[1]
    return _Substring(base, pad[0], pad[0] + len(text))


def _report(what, text, got, want):
    print('%s on %r: real code gives %r, the contract requires %r' % (what, text, got, want))
    print('REPLAY: VIOLATION-CONFIRMED')


def find():
    from nutils.expression_v2 import _match, _match_spaces
    ms = (_match(' + '), _match_spaces)
    for text in _texts('a ({+)', 5):
        for matchers in (ms[:1], ms[1:], ms):
            try:
                got = _sub(text)._find(*matchers)
            except Exception as e:
                return _report('_find', text, type(e).__name__, _ref_find(text, matchers))
            if tuple(got) != _ref_find(text, matchers):
                return _report('_find', text, tuple(got), _ref_find(text, matchers))
    print('REPLAY: not reproduced')


def matchers():
    from nutils.expression_v2 import _match, _match_spaces
    for text in _texts('a +/^_', 5):
        for lit in (' + ', ' / ', '^', '_'):
            want = len(lit) if text[:len(lit)] == lit else 0
            if _match(lit)(text) != want:
                return _report('_match(%r)' % lit, text, _match(lit)(text), want)
        want = len(text) - len(text.lstrip(' '))
        k = 0
        while k < len(text) and text[k] == ' ':
            k += 1
        if _match_spaces(text) != k:
            return _report('_match_spaces', text, _match_spaces(text), k)
    print('REPLAY: not reproduced')


def partition():
    from nutils.expression_v2 import _match
    for text in _texts('a_()', 6):
        j, k, n = _ref_find(text, (_match('_'),))
        want = (text[:k], text[k:k + n], text[k + n:])
        try:
            s = _sub(text)
            got = tuple(str(p) for p in s.partition(_match('_')))
            rng = [(p.start, p.stop) for p in s.partition(_match('_'))]
        except Exception as e:
            return _report('partition', text, type(e).__name__, want)
        if got != want or rng[0][0] != s.start or rng[2][1] != s.stop or rng[0][1] != rng[1][0] or rng[1][1] != rng[2][0]:
            return _report('partition', text, got, want)
    print('REPLAY: not reproduced')


def split():
    from nutils.expression_v2 import _match, _match_spaces
    for text in _texts('a (+)', 7):
        for matchers, first in (((_match_spaces,), None), ((_match(' + '), _match(' ')), 7)):
            want = _ref_split(text, matchers)
            try:
                s = _sub(text)
                got = [str(p) for p in s.split(*matchers)]
                goti = [(j, str(p)) for j, p in s.isplit(*matchers, first=first)]
                rng = [(p.start, p.stop) for p in s.split(*matchers)]
            except Exception as e:
                return _report('split', text, type(e).__name__, [p for _, p in want])
            if got != [p for _, p in want]:
                return _report('split', text, got, [p for _, p in want])
            if goti != [(first if j is None else j, p) for j, p in want]:
                return _report('isplit', text, goti, [(first if j is None else j, p) for j, p in want])
            if rng[0][0] != s.start or rng[-1][1] != s.stop or any(a > b for a, b in rng) or any(p[1] >= q[0] for p, q in zip(rng, rng[1:])):
                return _report('split (ranges)', text, rng, 'pieces tile the input with non-empty separators')
    print('REPLAY: not reproduced')


def trim():
    for text in _texts('a ', 6):
        s = _sub(text)
        try:
            t = s.trim()
        except Exception as e:
            return _report('trim', text, type(e).__name__, text.strip(' '))
        lead = len(text) - len(text.lstrip(' '))
        want = (s.start + lead, s.start + lead + len(text.strip(' '))) if text.strip(' ') else None
        if str(t) != text.strip(' ') or not (s.start <= t.start <= t.stop <= s.stop) or (want and (t.start, t.stop) != want):
            return _report('trim', text, (str(t), t.start, t.stop), (text.strip(' '), want))
    print('REPLAY: not reproduced')


def strip():
    for text in _texts('a-) ', 5):
        s = _sub(text)
        for name, lit, want in (('strip_prefix', '-', text[1:] if text[:1] == '-' else None), ('strip_suffix', ')', text[:-1] if text[-1:] == ')' else None),
                                ('starts_with', ' ', text[:1] == ' '), ('ends_with', ' ', text[-1:] == ' ')):
            try:
                got = getattr(s, name)(lit)
            except Exception as e:
                return _report(name, text, type(e).__name__, want)
            got = got if isinstance(got, bool) or got is None else str(got)
            if got != want:
                return _report('%s(%r)' % (name, lit), text, got, want)
    print('REPLAY: not reproduced')


# ---------------------------------------------------------------- parser: index bookkeeping and error behaviour on a concrete family

def parser():
    """valid strings must evaluate to their index-notation reading (free indices sorted alphabetically by `@`);
    rule-violating strings must raise ExpressionSyntaxError -- not be accepted, not raise anything else"""
    import numpy
    from nutils import function
    from nutils.expression_v2 import Namespace, ExpressionSyntaxError
    rng = numpy.random.RandomState(0)
    V = dict(a=rng.rand(3), b=rng.rand(3), c=rng.rand(2), A=rng.rand(3, 3), B=rng.rand(3, 3), C=rng.rand(2, 3), T=rng.rand(3, 3, 3), s=numpy.array(2.), t=numpy.array(3.))
    ns = Namespace()
    for k, v in V.items():
        setattr(ns, k, function.Array.cast(v))
    a, b, c, A, B, C, T, s, t = (V[k] for k in 'abcABCTst')
    E = numpy.einsum
    valid = [('A_ij + B_ji', A + B.T), ('A_ij - B_ij', A - B), ('-A_ij + B_ij', B - A), ('-a_i', -a), ('a_i + b_i - a_i', b), ('A_ji + B_ij', A.T + B),
             ('T_ijk + T_kij', T + E('kij->ijk', T)), ('T_ijk + T_jki', T + E('jki->ijk', T)), ('T_ijk - T_kji', T - E('kji->ijk', T)), ('T_kij + T_ijk', E('kij->ijk', T) + T),
             ('a_i b_i', a @ b), ('A_ij a_j', A @ a), ('a_i b_j', numpy.outer(a, b)), ('b_j a_i', numpy.outer(a, b)), ('a_i A_ij b_j', a @ A @ b), ('A_ii', numpy.trace(A)),
             ('T_iij a_j', E('iij,j->', T, a)), ('T_iji', E('iji->j', T)), ('a_j C_ij', C @ a), ('C_ij a_j + c_i', C @ a + c), ('A_ij a_i b_j + s', a @ A @ b + s),
             ('s a_i / t', s * a / t), ('a_i / s t', a / (s * t)), ('a_i / b_j b_j', a / (b @ b)), ('a_i b_i / a_j a_j', (a @ b) / (a @ a)), ('2 a_i', 2 * a), ('a_i^2', a**2),
             ('s^2 a_i', 4 * a), ('a_i^-2', a**-2.), ('a_i^(s + t)', a**5), ('-s^2', -4.), ('a_1', a[1]), ('A_i0', A[:, 0]), ('A_0i', A[0]), ('A_1i a_i', A[1] @ a), ('T_i2i', E('ii->', T[:, 2, :])),
             ('T_0ij + A_ji', T[0] + A.T), ('T_i1j A_ij', (T[:, 1, :] * A).sum()), ('(a_i + b_i) a_i', (a + b) @ a), ('(A_ij + B_ji) a_j', (A + B.T) @ a), ('a_i (b_j b_j)', a * (b @ b)),
             ('A_ij B_jk', A @ B), ('A_ij B_kj', A @ B.T), ('A_ik B_kj + A_ij', A @ B + A), ('  a_i  ', a), ('a_i  b_i', a @ b),
             ('{a_i}', a), ('[a_i]', 0 * a), ('{a_i + b_i} a_i', (a + b) @ a), ('[A_ij] + A_ji', A.T), ('2^2 a_i', 4 * a), ('2^(1 + 1) a_i', 4 * a), ('(a_i b_i)^2', (a @ b)**2), ('a_i^(b_j b_j)', a**(b @ b)), ('T_ij1', T[:, :, 1]), ('T_1i0', T[1, :, 0]), ('T_ij2 A_ij', (T[:, :, 2] * A).sum())]
    invalid = ['a_i + A_ij', 'A_ij + a_i', 'a_i + c_i', 'A_ij + C_ij', 'C_ij + A_ij', 'A_ij + A_ik', 'a_i a_i a_i', 'A_ii a_i', 'a_i A_ii', 'T_iii', 'a_i / b_j', 'a_i b_i / a_i', 's / s / s',
               'a_i a_i / b_i b_i', 'a_i / b_i b_i', '(a_i a_i) b_i', 'a_i (b_i b_i)', 'a_i^(b_i b_i)', 'x', 'a_ij', 'A_i', 'a_3', 'C_2i', 'a_A', 'a_i 2', '2 2 a_i', 'a_i + -b_i', 'a_i +b_i', 'a_i+ b_i', 'a_i+b_i', 'a_i -b_i',
               'a_i/ s', 'a_i /s', '', ' ', '-', '(a_i', 'a_i)', '[a_i)', 'a_i (', '() a_i', 'a_i^b_j', 'a_i^2^2', 'a_i ^2', 'a_i^ 2', 'a_i^', '^2', 'a_i + ', ' + a_i', 'a_i - ', 'a_i / ', ' / s', 'a_i^x', 'f(a_i)', 'a_i c_i', 'a_i^(2)b', 'a_i^b(2)', 'a_i 2^2', 'a_i^(2', 'a_i^[2]', 'a_i^2 ^2', 'a_i^-', '<a_i>', 'a_i [', 'a[a_i]', 'a{a_i}', '(a_i]', '{a_i) b_i', '(a_i) b', '1.2.3', '.', 'A_i3', 'T_0i3', 'A_i-', 'A_iI',
               # an index summed inside a NON-FIRST term of a sum in a scope and used once more outside the scope (third use)
               '(a_i + A_jj b_i) b_j', '(s + A_jj) A_jj', 'a_j / (s + A_jj)', 'a_j^(s + A_jj)', '{s + A_jj} b_j', '(A_jj b_i + a_i) b_j', '(a_i - A_ij b_j) b_j']
    for expr, want in valid:
        try:
            got = numpy.asarray((expr @ ns).eval())
        except Exception as e:
            print('%r raised %s: %s' % (expr, type(e).__name__, str(e).split(chr(10))[0][:100]))
            print('REPLAY: VIOLATION-CONFIRMED a valid expression is rejected')
            return
        if got.shape != numpy.shape(want) or not numpy.allclose(got, want):
            print('%r evaluates to an array of shape %s that differs from its index-notation reading (shape %s)' % (expr, got.shape, numpy.shape(want)))
            print('REPLAY: VIOLATION-CONFIRMED')
            return
    for expr in invalid:
        try:
            got = expr @ ns
        except ExpressionSyntaxError:
            continue
        except Exception as e:
            print('%r raised %s instead of ExpressionSyntaxError: %s' % (expr, type(e).__name__, str(e)[:100]))
            print('REPLAY: VIOLATION-CONFIRMED a rule-violating string does not raise the expression syntax error')
            return
        print('%r (violates a documented rule) was accepted: shape %s' % (expr, got.shape))
        print('REPLAY: VIOLATION-CONFIRMED an invalid expression is silently evaluated')
        return
    print('REPLAY: not reproduced')


def partition_scope():
    for text in _texts('a()[]<', 6):
        _, i, _n = _ref_find(text, (lambda t: t[0] in _OPEN,))
        _, j, _n = _ref_find(text[i:], (lambda t: t[0] in _CLOSE,))
        j += i
        want = (text[:i], text[i:i + 1], text[i + 1:j], text[j:j + 1], text[j + 1:])
        try:
            s = _sub(text)
            ps = s.partition_scope()
            got = tuple(str(p) for p in ps)
        except Exception as e:
            return _report('partition_scope', text, type(e).__name__, want)
        ok = got == want and ps[0].start == s.start and ps[4].stop == s.stop and all(p.stop == q.start for p, q in zip(ps, ps[1:]))
        ok = ok and (got[1] == '' or got[1] in _OPEN) and (got[3] == '' or got[3] in _CLOSE) and (got[1] != '' or got[2:] == ('', '', '')) and (got[3] != '' or got[4] == '')
        if not ok:
            return _report('partition_scope', text, got, want)
    print('REPLAY: not reproduced')
