"""Native replay for C19: namespace expressions with repeated indices."""


def trace():
    from nutils import function
    from nutils.expression_v2 import Namespace, ExpressionSyntaxError
    import numpy
    ns = Namespace()
    ns.A = function.Array.cast(numpy.arange(9.).reshape(3, 3))
    ns.B = function.Array.cast(numpy.arange(27.).reshape(3, 3, 3))
    ns.C = function.Array.cast(numpy.arange(6.).reshape(2, 3))
    ns.v = function.Array.cast(numpy.arange(3.))
    A, B, C, v = [numpy.asarray(getattr(ns, k).eval()) for k in 'ABCv']
    cases = [('A_ii', numpy.trace(A)), ('A_ij v_j', A @ v), ('B_iij', numpy.einsum('iij->j', B)), ('B_iji', numpy.einsum('iji->j', B)), ('A_ij A_ij', (A * A).sum()),
             ('B_ijj v_i', numpy.einsum('ijj,i->', B, v))]
    bad = ['B_iii', 'A_ii v_i', 'C_ii', 'A_ij v_j v_j']
    for expr, want in cases:
        try:
            got = numpy.asarray((expr @ ns).eval())
        except Exception as e:
            print('%r raised %s: %s' % (expr, type(e).__name__, str(e)[:80]))
            print('REPLAY: VIOLATION-CONFIRMED a valid expression is rejected')
            return
        if got.shape != numpy.shape(want) or not numpy.allclose(got, want):
            print('%r evaluates to %s, index-notation reading gives %s' % (expr, got.tolist(), numpy.asarray(want).tolist()))
            print('REPLAY: VIOLATION-CONFIRMED')
            return
    for expr in bad:
        try:
            got = (expr @ ns)
        except ExpressionSyntaxError:
            continue
        except Exception as e:
            continue
        print('%r (index used more than twice / mismatching lengths) was accepted: shape %s' % (expr, got.shape))
        print('REPLAY: VIOLATION-CONFIRMED an invalid expression is silently evaluated')
        return
    print('REPLAY: not reproduced')


def align():
    from nutils import function
    from nutils.expression_v2 import Namespace
    import numpy, itertools
    ns = Namespace()
    ns.a, ns.b, ns.c = (function.Array.cast(numpy.arange(1., n + 1)) for n in (2, 3, 4))
    T = numpy.arange(24.).reshape(2, 3, 4)
    ns.T = function.Array.cast(T)
    for out in itertools.permutations('ijk'):
        name = 'P_' + ''.join(out)
        setattr(ns, name, 'a_i b_j c_k')
        want = numpy.einsum('i,j,k->' + ''.join(out), numpy.arange(1., 3), numpy.arange(1., 4), numpy.arange(1., 5))
        got = numpy.asarray(getattr(ns, 'P').eval()) if False else numpy.asarray(getattr(ns, name.split('_')[0]).eval())
        if got.shape != want.shape or not numpy.allclose(got, want):
            print("ns.%s = 'a_i b_j c_k' stores shape %s, expected %s" % (name, got.shape, want.shape))
            print('REPLAY: VIOLATION-CONFIRMED free indices are not ordered as requested')
            return
    print('REPLAY: not reproduced')
