"""Native replays for the C01 contracts (run under /venv/bin/python with PYTHONPATH=$VERIF_REPO/src).

run(cls, model[, method])      scalar rewrite rules: children with the announced ranges are built from real nodes
                               (native/c06.child), the rule method is called once and original / replacement are evaluated.
run_nd(cls, method, cfg, model) swap protocols: real nodes over an integer Argument with all-distinct entries; the rule's
                               replacement is evaluated and compared with the numpy meaning of the protocol.  The lengths of the
                               counter-model are tried first, then every small shape (lengths 1..3) -- a search guided by the
                               failed configuration, reported as such.
"""
import itertools, json, sys, warnings
import numpy
from nutils import evaluable as ev, types
warnings.simplefilter('ignore')
inf = float('inf')


def _eval(node, args):
    return numpy.asarray(ev.eval_once(node, _simplify=False, _optimize=False, arguments=args))


# ------------------------------------------------------------------------------------------------ scalar rewrite rules

def _ext(m, name):
    t, v = int(m[name + '.t']), int(m[name + '.v'])
    return {0: v, 1: inf, 2: -inf}.get(t, float('nan'))


def _child(m, name, shape=()):
    from native.c06 import child
    if name + '.lo.t' in m:
        lo, hi = _ext(m, name + '.lo'), _ext(m, name + '.hi')
    else:
        lo, hi = -inf, inf
    return child(name, lo, hi, shape)


def _const_or_child(m, name):
    """a child that must report _const_uniform: a Constant when the model says so"""
    if str(m.get(name + '.has_const_uniform', 'False')) == 'True':
        return ev.constant(int(m[name + '.const_uniform'])), True
    return _child(m, name), False


def build_scalar(cls, m):
    def val(n):
        return numpy.array(int(m.get(n + '.val', 0)))
    if cls in ('Mod', 'FloorDivide'):
        a, b = _child(m, 'dividend'), _child(m, 'divisor')
        return getattr(ev, cls)(a, b), dict(dividend=val('dividend'), divisor=val('divisor'))
    if cls in ('Minimum', 'Maximum'):
        a, b = _child(m, 'x'), _child(m, 'y')
        return getattr(ev, cls)(a, b), dict(x=val('x'), y=val('y'))
    if cls == 'InRange':
        return ev.InRange(_child(m, 'index'), _child(m, 'length')), dict(index=val('index'), length=val('length'))
    if cls == 'NormDim':
        return ev.NormDim(ev.constant(int(m['length.val'])), ev.constant(int(m['index.val']))), {}
    if cls == 'Power':
        f = _child(m, 'func')
        p, isconst = _const_or_child(m, 'power')
        if not isconst:
            p = ev.Maximum(p, ev.constant(0)) if p._intbounds[0] < 0 else p
        return ev.Power(f, p), dict(func=val('func'), power=val('power'))
    if cls == 'Multiply':
        a, ca = _const_or_child(m, 'f0')
        b, cb = _const_or_child(m, 'f1')
        return ev.Multiply(types.frozenmultiset((a, b))), dict(f0=val('f0'), f1=val('f1'))
    return None


def run(cls, model, method=None):
    try:
        r = build_scalar(cls, model)
    except AssertionError as e:
        print('REPLAY: could not build the children announced by the model:', e)
        return
    if r is None:
        print('REPLAY: no native builder for', cls)
        return
    node, args = r
    for meth in ([method] if method else ['_simplified', '_optimized_for_numpy']):
        try:
            repl = getattr(node, meth)()
        except Exception as e:
            print('REPLAY: %s.%s raised %s: %s' % (cls, meth, type(e).__name__, e))
            try:
                _eval(node, args)
                print('REPLAY: VIOLATION-CONFIRMED the rule raises although the original evaluates')
            except Exception:
                pass
            return
        if repl is None:
            continue
        try:
            want = _eval(node, args)
        except Exception as e:
            print('REPLAY: original undefined for this input (%s); not a witness' % type(e).__name__)
            continue
        try:
            got = _eval(repl, args)
        except Exception as e:
            print('REPLAY: VIOLATION-CONFIRMED %s.%s replaced %r (value %s) by %r which raises %s' % (cls, meth, node, want.tolist(), repl, type(e).__name__))
            return
        print('original', want.tolist(), 'replacement', got.tolist(), 'arguments', {k: v.tolist() for k, v in args.items()})
        if want.shape != got.shape or want.dtype != got.dtype or not numpy.array_equal(want, got):
            print('REPLAY: VIOLATION-CONFIRMED %s.%s replaced %r by %r: value %s became %s' % (cls, meth, node, repl, want.tolist(), got.tolist()))
            return
    print('REPLAY: not reproduced')


# ------------------------------------------------------------------------------------------------ n-d swap protocols

def _arg(name, shape, seed=0):
    a = ev.Argument(name, tuple(ev.constant(int(n)) for n in shape), int)
    size = int(numpy.prod(shape, dtype=int))
    v = (numpy.arange(size) * 7 + 3 + seed).reshape(shape)
    return a, v


def _index(name, shape, upper, seed):
    rng = numpy.random.RandomState(seed)
    a = ev.Argument(name, tuple(ev.constant(int(n)) for n in shape), int)
    return a, rng.randint(0, upper, size=shape)


def _x(cls, cfg, shape):
    """(X, arguments) for the node class under test over a base array F of the given shape (None if not constructible)"""
    F, Fv = _arg('F', shape)
    args = dict(F=Fv)
    if cls in ('Transpose', 'TakeDiag'):
        # these rules delegate to the child's protocol method: use a child that accepts (Power with exponent 1 keeps the values)
        F = ev.Power(F, ev.appendaxes(ev.constant(1), F.shape))
    if cls == 'Ravel':
        return ev.Ravel(F), args
    if cls == 'Unravel':
        return None
    if cls == 'Transpose':
        return ev.Transpose(F, tuple(cfg['axes'])), args
    if cls == 'InsertAxis':
        return None
    if cls == 'TakeDiag':
        return (ev.TakeDiag(F), args) if shape[-1] == shape[-2] else None
    if cls in ('Sign', 'Negative', 'Absolute'):
        args['F'] = Fv - int(Fv.mean())
        return getattr(ev, cls)(F), args
    return None


def _base_rank(cls, cfg):
    if cls in ('Ravel', 'TakeDiag'):
        return cfg['rank'] + 1
    if cls == 'Transpose':
        return len(cfg['axes'])
    if cls in ('InsertAxis', 'Unravel'):
        return cfg['rank'] - (1 if cls == 'InsertAxis' else 1)
    if cls in ('Inflate', 'Take'):
        return cfg['func_rank']
    return cfg['rank']


def _candidates(cls, cfg, model):
    rank = _base_rank(cls, cfg)
    first = []
    try:
        first = [tuple(int(model['F.shape%d' % i]) for i in range(rank))]
    except (KeyError, ValueError):
        pass
    rest = list(itertools.product((2, 3, 1), repeat=rank))
    if cls == 'Ravel':  # the ravelled length m*n must be able to meet another axis
        rest = [s for s in itertools.product((2, 3, 1, 4, 6), repeat=rank) if max(s) <= 3 or s[-2] * s[-1] in s[:-2]][:150]
    return [s for s in first if all(0 < n <= 8 for n in s)] + rest


def _build(cls, cfg, shape, extra):
    """X over base shape `shape`; extra = the inserted / unravelled lengths for classes that need them"""
    if cls == 'InsertAxis':
        F, Fv = _arg('F', shape)
        return ev.InsertAxis(F, ev.constant(extra)), dict(F=Fv)
    if cls == 'Inflate':
        dshape = tuple(cfg['dofmap_shape'])
        if tuple(shape[len(shape) - len(dshape):]) != dshape:
            return None
        F, Fv = _arg('F', shape)
        rng = numpy.random.RandomState(3)
        return ev.Inflate(F, ev.constant(rng.randint(0, 3, size=dshape)), ev.constant(3)), dict(F=Fv)
    if cls == 'Unravel':
        F, Fv = _arg('F', shape)
        last = shape[-1]
        for a in (2, 3, 1):
            if last % a == 0:
                return ev.Unravel(F, ev.constant(a), ev.constant(last // a)), dict(F=Fv)
        return None
    return _x(cls, cfg, shape)


def run_nd(cls, method, cfg, model):
    tried = 0
    for shape in _candidates(cls, cfg, model):
        for extra in ((2, 3, 1) if cls == 'InsertAxis' else (None,)):
            try:
                r = _build(cls, cfg, shape, extra)
            except AssertionError:
                continue
            if r is None:
                continue
            X, args = r
            Xv = _eval(X, args)
            for case in _calls(X, Xv, method, cfg, args):
                if case is None:
                    continue
                tried += 1
                call_args, want, args2, text = case
                try:
                    repl = getattr(X, method)(*call_args)
                except Exception as e:
                    print('REPLAY: VIOLATION-CONFIRMED %s.%s%s on base shape %s raised %s: %s' % (cls, method, text, shape, type(e).__name__, e))
                    return
                if repl is None:
                    continue
                try:
                    got = _eval(repl, args2)
                except Exception as e:
                    print('REPLAY: VIOLATION-CONFIRMED %s.%s%s on base shape %s returned %r whose evaluation raises %s: %s' % (cls, method, text, shape, repl, type(e).__name__, e))
                    return
                if got.shape != want.shape or not numpy.array_equal(got, want):
                    print('F =', args['F'].tolist())
                    print('REPLAY: VIOLATION-CONFIRMED %s.%s%s on base shape %s: replacement %r evaluates to %s (shape %s), the protocol promises %s (shape %s)'
                          % (cls, method, text, shape, repl, got.tolist(), got.shape, want.tolist(), want.shape))
                    return
    print('REPLAY: not reproduced on %d small instances (lengths 1..3, distinct entries); search guided by the failed configuration %s' % (tried, cfg))


def _calls(X, Xv, method, cfg, args):
    """yield (call arguments, numpy meaning of the protocol, evaluation arguments, text)"""
    if method == '_takediag':
        a1, a2 = cfg['axis1'], cfg['axis2']
        if Xv.shape[a1] != Xv.shape[a2]:
            return
        yield (a1, a2), numpy.diagonal(Xv, axis1=a1, axis2=a2), args, '(%d, %d)' % (a1, a2)
    elif method == '_take':
        axis, ir = cfg['axis'], cfg['index_rank']
        for k, ishape in enumerate(itertools.product((2, 3), repeat=ir)):
            I, Iv = _index('I', ishape, Xv.shape[axis], k)
            yield (I, axis), numpy.take(Xv, Iv, axis=axis), dict(args, I=Iv), '(I%s, %d)' % (list(ishape), axis)
    elif method == '_unravel':
        axis = cfg['axis']
        n = Xv.shape[axis]
        for a in (2, 3, 1):
            if n % a == 0:
                sh = (a, n // a)
                yield (axis, tuple(ev.constant(s) for s in sh)), Xv.reshape(Xv.shape[:axis] + sh + Xv.shape[axis + 1:]), args, '(%d, %s)' % (axis, sh)
    elif method == '_power':
        N, Nv = _index('N', Xv.shape, 4, 5)
        yield (N,), numpy.power(Xv, Nv), dict(args, N=Nv), '(N)'
    elif method == '_sign':
        yield (), numpy.sign(Xv), args, '()'
    elif method in ('_multiply', '_add'):
        O, Ov = _index('O', Xv.shape, 9, 7)
        yield (O,), (Xv * Ov if method == '_multiply' else Xv + Ov), dict(args, O=Ov), '(O)'
    elif method == '_insertaxis':
        axis = cfg['axis']
        for n in (2, 1):
            yield (axis, ev.constant(n)), numpy.repeat(numpy.expand_dims(Xv, axis), n, axis), args, '(%d, %d)' % (axis, n)


# ------------------------------------------------------------------------------------------------ scalar extension rules

def _cmp(orig, repl, args, what):
    want = _eval(orig, args)
    try:
        got = _eval(repl, args)
    except Exception as e:
        print('REPLAY: VIOLATION-CONFIRMED %s: replacement %r raises %s (original %s)' % (what, repl, type(e).__name__, want.tolist()))
        return True
    ok = want.shape == got.shape and (numpy.array_equal(want, got) if want.dtype.kind in 'bi' else numpy.allclose(want, got, rtol=1e-12, atol=1e-12, equal_nan=True))
    if not ok:
        print('REPLAY: VIOLATION-CONFIRMED %s: original %s, replacement %r evaluates to %s at %s' % (what, want.tolist(), repl, got.tolist(), {k: v.tolist() for k, v in args.items()}))
    return not ok


def run_multiply_add(mine, other, other_is_product, model):
    """self = product of the factors `mine`, other = product of `other` (or its single factor): self._add(other) vs self + other"""
    names = sorted(set(mine) | set(other))
    tried = 0
    grids = [[int(model.get(n + '.val', 0)) for n in names]] + [list(v) for v in itertools.product((-1, 2, 3, 0), repeat=len(names))]
    for consts in itertools.product((False, True), repeat=len(names)):
        for vals in grids:
            F, args = {}, {}
            for n, c, v in zip(names, consts, vals):
                if c:
                    F[n] = ev.constant(v)
                else:
                    F[n] = ev.Argument(n, (), int)
                    args[n] = numpy.array(v)
            try:
                me = ev.multiply(*[F[l] for l in mine])
                ot = ev.multiply(*[F[l] for l in other]) if other_is_product else F[other[0]]
            except Exception:
                continue
            if not isinstance(me, ev.Multiply) or (other_is_product and not isinstance(ot, ev.Multiply)):
                continue
            tried += 1
            try:
                repl = me._add(ot)
            except Exception as e:
                print('REPLAY: VIOLATION-CONFIRMED Multiply._add raised %s: %s for %r + %r' % (type(e).__name__, e, me, ot))
                return
            if repl is None:
                continue
            if _cmp(ev.Add(types.frozenmultiset((me, ot))), repl, args, 'Multiply._add(%s + %s)' % ('*'.join(mine), '*'.join(other))):
                return
    print('REPLAY: not reproduced on %d instances (factors constant / argument, values in {-1,0,2,3} and the model)' % tried)


def run_power_power(mode):
    """(x**a)**n against Power(x, a)._power(n) for a grid of bases and exponents (guided by the failed mode)"""
    T = int if mode == 'int' else float
    x = ev.Argument('x', (), T)
    tried = 0
    if mode == 'int':
        cases = [(a, n) for a in (0, 1, 2, 3) for n in (0, 1, 2, 3)]
    else:
        cases = [(a, n) for a in (2., 4., 1., 3., .5) for n in (.5, .25, 2., 3., 1.5)]
    for a, n in cases:
        for a_const in (True, False):
            args = {}
            if a_const:
                A = ev.constant(T(a))
            else:
                A = ev.Argument('a', (), T)
                if T is int:
                    A = ev.Maximum(A, ev.constant(0))
                args['a'] = numpy.array(T(a))
            if mode == 'even' and not (a_const and a % 2 == 0):
                continue
            N = ev.constant(T(n))
            inner = ev.Power(x, A)
            try:
                repl = inner._power(N)
            except Exception as e:
                print('REPLAY: VIOLATION-CONFIRMED Power._power raised %s: %s' % (type(e).__name__, e))
                return
            if repl is None:
                continue
            for xv in (-3, -2, 2, 3, 0, -1):
                args['x'] = numpy.array(T(xv))
                orig = ev.Power(inner, N)
                with numpy.errstate(all='ignore'):
                    want = _eval(orig, args)
                    if not numpy.isfinite(want).all():
                        continue  # the property speaks about arguments on which the original is defined and finite
                    tried += 1
                    if _cmp(orig, repl, args, 'Power._power: (x**%s)**%s with %s exponent' % (a, n, 'constant' if a_const else 'argument-valued')):
                        return
    print('REPLAY: not reproduced on %d instances' % tried)


def run_sign_abs():
    x, y = ev.Argument('x', (), int), ev.Argument('y', (), int)
    node = ev.multiply(x, y, ev.Sign(x))
    repl = node._optimized_for_numpy()
    if repl is None:
        print('REPLAY: rule declined')
        return
    for xv in (-3, 0, 2):
        for yv in (-2, 5):
            if _cmp(node, repl, dict(x=numpy.array(xv), y=numpy.array(yv)), 'Multiply._optimized_for_numpy x*y*sign(x)'):
                return
    print('REPLAY: not reproduced')


def run_logical_not():
    b = ev.Argument('b', (), bool)
    node = ev.LogicalNot(ev.LogicalNot(b))
    repl = node._simplified()
    if repl is None:
        print('REPLAY: rule declined')
        return
    for bv in (False, True):
        if _cmp(node, repl, dict(b=numpy.array(bv)), 'LogicalNot._simplified not not b'):
            return
    print('REPLAY: not reproduced')
