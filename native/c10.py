"""Native replays for C10 (run under /venv/bin/python against $VERIF_REPO/src).

Every recipe first rebuilds the input of the counter-model (axis ranges, periods, periodicity flags, element / interface
positions) as REAL transformseq.DimAxis / IntAxis / topology.StructuredTopology objects and evaluates the violated
property statement on what the real code returns.  If the model's input does not show the failure (e.g. the solver's
model violates a class invariant the real constructors assert), a small concrete family is searched instead, and the
output says so.
"""
import itertools
import numpy


# ------------------------------------------------------------------------------------------------------------ helpers --

def _val(model, name, default=None):
    v = (model or {}).get(name)
    if v is None:
        return default
    v = str(v).strip()
    if v in ('True', 'False'):
        return v == 'True'
    try:
        return int(v)
    except ValueError:
        try:
            return int(v.replace('(', '').replace(')', '').replace(' ', ''))  # z3 prints negatives as (- 1)
        except ValueError:
            return default


def _confirm(msg):
    print(msg)
    print('REPLAY: VIOLATION-CONFIRMED')
    return True


def _done(found):
    if not found:
        print('REPLAY: not reproduced')


def _dim(i, j, mod, per):
    from nutils import transformseq
    return transformseq.DimAxis(i, j, mod, bool(per))


def _axis_cases():
    """(i, j, mod, isperiodic) of small DimAxis objects satisfying the class invariant"""
    for n in (1, 2, 3, 4):
        yield 0, n, n, True
        for i in (0, 1, 3):
            for mod in (0, i + n + 2):
                yield i, i + n, mod, False


def _axis_from(model, k=''):
    i, j, mod, per = _val(model, 'i%s' % k), _val(model, 'j%s' % k), _val(model, 'mod%s' % k, 0), _val(model, 'isperiodic%s' % k, False)
    if i is None or j is None or not (0 <= i < j) or mod < 0:
        return None
    if per and not (i == 0 and mod == j - i):
        return None
    if mod and j - i > mod:
        return None
    return i, j, mod, bool(per)


def _mapmod(ax, k):
    return ax.map(k)


def _run(name, check, cases, model_case):
    """evaluate `check(case)` (returns a failure text or None) on the model's case first, then on the family"""
    tried = []
    if model_case is not None:
        tried.append(('counter-model input', model_case))
    tried += [('searched family', c) for c in cases]
    for origin, case in tried:
        try:
            msg = check(case)
        except Exception as e:  # the real code raised where the contract expects a normal return
            msg = 'raised %s: %s' % (type(e).__name__, e)
        if msg:
            return _confirm('%s [%s] input %r: %s' % (name, origin, case, msg))
    _done(False)


# ------------------------------------------------------------------------------------------- 1-d: DimAxis / IntAxis --

def _chk_intaxis(c):
    ax = _dim(*c)
    i, j, mod, per = c
    T, F = ax.intaxis(0, True), ax.intaxis(0, False)
    if not (len(T) == len(F) == j - i - 1 + per):
        return 'interface axes have lengths %d, %d, expected %d' % (len(T), len(F), j - i - 1 + per)
    if not (T.side == True and F.side == False):
        return 'sides %r, %r' % (T.side, F.side)
    for m in range(len(T)):
        a, b = T.map(m), F.map(m)
        if (b - a - 1) % mod if mod else b != a + 1:
            return 'interface %d pairs element %d with %d (not its neighbour)' % (m, a, b)
    seen = sorted(T.map(m) for m in range(len(T)))
    want = sorted(ax.map(p) for p in range(j - i) if p + 1 < j - i or per)
    if seen != want:
        return 'left elements of the interfaces are %r, expected each of %r exactly once' % (seen, want)


def dimaxis_intaxis(model):
    _run('DimAxis.intaxis', _chk_intaxis, _axis_cases(), _axis_from(model))


def _chk_boundaries(c):
    ax = _dim(*c)
    i, j, mod, per = c
    bs = list(ax.boundaries(3))
    if per:
        return None if not bs else 'a periodic axis has %d boundary sides' % len(bs)
    got = [(b.i, b.j, bool(b.side), b.ibound, b.mod) for b in bs]
    want = [(i, i + 1, False, 3, mod), (j - 1, j, True, 3, mod)]
    if got != want:
        return 'boundary sides (i, j, side, ibound, mod) = %r, expected %r' % (got, want)


def dimaxis_boundaries(model):
    _run('DimAxis.boundaries', _chk_boundaries, _axis_cases(), _axis_from(model))


def _chk_axis_refined(c):
    ax = _dim(*c)
    i, j, mod, per = c
    r = ax.refined
    if (r.i, r.j, r.mod, r.isperiodic) != (2 * i, 2 * j, 2 * mod, per):
        return 'refined axis (i, j, mod, isperiodic) = %r, expected %r' % ((r.i, r.j, r.mod, r.isperiodic), (2 * i, 2 * j, 2 * mod, per))


def dimaxis_refined(model):
    _run('DimAxis.refined', _chk_axis_refined, _axis_cases(), _axis_from(model))


def _chk_refined_boundaries(c):
    ax = _dim(*c)
    if c[3]:
        return None
    fine = [(b.i, b.j, b.mod, bool(b.side), b.ibound) for b in ax.refined.boundaries(3)]
    ref = [(b.i, b.j, b.mod, bool(b.side), b.ibound) for b in (b.refined for b in ax.boundaries(3))]
    if fine != ref:
        return 'boundaries(refined) = %r but refined(boundaries) = %r' % (fine, ref)


def intaxis_refined(model):
    _run('IntAxis.refined', _chk_refined_boundaries, _axis_cases(), _axis_from(model))


def _chk_opposite(c):
    from nutils import transformseq
    i, j, mod, ib, side = c
    ax = transformseq.IntAxis(i, j, mod, ib, side)
    o = ax.opposite(ib)
    s = 1 if side else 0
    if (o.i, o.j, bool(o.side)) != (i + 2 * s - 1, j + 2 * s - 1, not side):
        return 'opposite (i, j, side) = %r, expected %r' % ((o.i, o.j, o.side), (i + 2 * s - 1, j + 2 * s - 1, not side))
    oo = o.opposite(ib)
    if (oo.i, oo.j, bool(oo.side)) != (i, j, bool(side)):
        return 'opposite of opposite (i, j, side) = %r, expected %r' % ((oo.i, oo.j, oo.side), (i, j, side))


def intaxis_opposite(model):
    i, j, mod, ib, side = _val(model, 'i'), _val(model, 'j'), _val(model, 'mod', 0), _val(model, 'ibound', 0), _val(model, 'side', False)
    mc = (i, j, mod, ib, bool(side)) if i is not None and j is not None and i <= j else None
    _run('IntAxis.opposite', _chk_opposite, [(i, i + n, 0, ib, side) for i in (0, 1, 4) for n in (0, 1, 3) for ib in (0, 2) for side in (False, True)], mc)


def _chk_getitem(c):
    i, j, mod, per, a, b = c
    ax = _dim(i, j, mod, per)
    r = ax.getitem(slice(a, b))
    if (r.i, r.j, r.mod, r.isperiodic) != (i + a, i + b, mod, False):
        return 'axis[%d:%d] (i, j, mod, isperiodic) = %r, expected %r' % (a, b, (r.i, r.j, r.mod, r.isperiodic), (i + a, i + b, mod, False))


def dimaxis_getitem(model):
    ax = _axis_from(model)
    a, b = _val(model, 'start'), _val(model, 'stop')
    mc = ax + (a, b) if ax and a is not None and b is not None and 0 <= a < b <= ax[1] - ax[0] else None
    cases = [c + (a, b) for c in _axis_cases() for a in range(c[1] - c[0]) for b in range(a + 1, c[1] - c[0] + 1)]
    _run('DimAxis.getitem', _chk_getitem, cases, mc)


# --------------------------------------------------------------------------------------- n-d: StructuredTopology --

BNAMES = (('left', 'right'), ('bottom', 'top'), ('front', 'back'))


def _topo(config, axes, nrefine=0):
    """axes: per position (i, j, mod, isperiodic) for 'D' or (i, j, mod, side) for 'I'"""
    from nutils import topology, transform, transformseq
    objs, nint = [], 0
    for c, a in zip(config, axes):
        if c == 'D':
            objs.append(transformseq.DimAxis(a[0], a[1], a[2], bool(a[3])))
        else:
            objs.append(transformseq.IntAxis(a[0], a[1], a[2], nint, bool(a[3])))
            nint += 1
    return topology.StructuredTopology('X', transform.Index(len(config), 0), objs, nrefine, bnames=BNAMES)


def _config_from(config, model):
    axes = []
    for k, c in enumerate(config):
        if c == 'D':
            a = _axis_from(model, k)
            if a is None:
                return None
            axes.append(a)
        else:
            i, mod, side = _val(model, 'i%d' % k), _val(model, 'mod%d' % k, 0), _val(model, 'side%d' % k, False)
            if i is None or i < 0 or mod < 0 or (mod and mod < 1):
                return None
            axes.append((i, i + 1, mod, bool(side)))
    if numpy.prod([a[1] - a[0] for a in axes]) > 400:
        return None
    nref = _val(model, 'nrefine', 0)
    return tuple(axes), (nref if 0 <= nref <= 2 else 0)


def _config_cases(config, big=False):
    """small family: every dimension axis with 1..3 (4) elements, periodic or not, offset/period variants; sides low/high"""
    per_axis = []
    for c in config:
        if c == 'D':
            opts = [(0, n, n, True) for n in (1, 2, 3)] + [(0, n, 0, False) for n in (1, 2, 3)] + [(1, 3, 6, False)]
        else:
            opts = [(0, 1, 0, False), (2, 3, 0, True)]
        per_axis.append(opts)
    for axes in itertools.product(*per_axis):
        yield tuple(axes), 0


def _dims(config):
    return [k for k, c in enumerate(config) if c == 'D']


def _chk_connectivity(config):
    def check(case):
        axes, nref = case
        topo = _topo(config, axes, nref)
        dims = _dims(config)
        n = [axes[k][1] - axes[k][0] for k in dims]
        per = [axes[k][3] for k in dims]
        conn = numpy.asarray(topo.connectivity)
        if conn.shape != (int(numpy.prod(n)), 2 * len(n)):
            return 'connectivity has shape %r, expected %r' % (conn.shape, (int(numpy.prod(n)), 2 * len(n)))
        for e in itertools.product(*[range(x) for x in n]):
            row = conn[numpy.ravel_multi_index(e, n)]
            for k in range(len(n)):
                for s, step in ((0, 1), (1, -1)):
                    nb = list(e)
                    nb[k] += step
                    if 0 <= nb[k] < n[k]:
                        want = numpy.ravel_multi_index(nb, n)
                    elif per[k]:
                        nb[k] %= n[k]
                        want = numpy.ravel_multi_index(nb, n)
                    else:
                        want = -1
                    if row[2 * k + s] != want:
                        return 'shape %r periodic %r: connectivity[element %r][edge %d] = %d, expected %d' % (n, per, e, 2 * k + s, row[2 * k + s], want)
                    if want >= 0 and int(numpy.ravel_multi_index(e, n)) not in conn[want]:
                        return 'shape %r: not symmetric, element %r lists %d but not vice versa' % (n, e, want)
    return check


def connectivity(config, model):
    _run('StructuredTopology.connectivity', _chk_connectivity(config), _config_cases(config), _config_from(config, model))


def _axes_of(topo):
    return [(type(a).__name__, a.i, a.j, a.mod) + ((bool(a.isperiodic),) if a.isdim else (bool(a.side), a.ibound)) for a in topo.axes]


def _st_axes(tr):
    return [(type(a).__name__, a.i, a.j, a.mod) + ((bool(a.isperiodic),) if a.isdim else (bool(a.side), a.ibound)) for a in tr._axes]


def _parts(t):
    from nutils import topology
    if isinstance(t, topology.DisjointUnionTopology):
        return list(t._topos), list(t._names)
    if isinstance(t, topology.EmptyTopology) or not len(t):
        return [], []
    return [t], [None]


def _chk_boundary(config):
    def check(case):
        axes, nref = case
        topo = _topo(config, axes, nref)
        nint = config.count('I')
        parts, names = _parts(topo.boundary)
        want, wnames, wopp = [], [], []
        base = _axes_of(topo)
        for k in _dims(config):
            i, j, mod, p = axes[k]
            if p:
                continue
            for s, (lo, hi) in enumerate(((i, i + 1), (j - 1, j))):
                ax = list(base)
                ax[k] = ('IntAxis', lo, hi, mod, bool(s), nint)
                want.append(ax)
                op = list(base)
                op[k] = ('IntAxis', lo + (2 * s - 1), hi + (2 * s - 1), mod, not s, nint)
                wopp.append(op)
                wnames.append(BNAMES[k][s])
        got = [_axes_of(t) for t in parts]
        if got != want:
            return 'boundary sides have axes %r, expected %r' % (got, want)
        if want and list(names) != wnames:
            return 'boundary names %r, expected %r' % (names, wnames)
        gopp = [_st_axes(t.opposites) for t in parts]
        if gopp != wopp:
            return 'opposites of the boundary sides have axes %r, expected %r' % (gopp, wopp)
        if any(t.nrefine != nref or t.root != topo.root for t in parts):
            return 'root / nrefine of a boundary side changed'
    return check


def boundary(config, model):
    _run('StructuredTopology.boundary', _chk_boundary(config), _config_cases(config), _config_from(config, model))


def _chk_interfaces(config):
    def check(case):
        axes, nref = case
        topo = _topo(config, axes, nref)
        dims = _dims(config)
        n = [axes[k][1] - axes[k][0] for k in dims]
        per = [axes[k][3] for k in dims]
        ifaces = topo.interfaces
        parts, names = _parts(ifaces)
        if len(parts) != len(dims) or list(names) != ['dir%d' % q for q in range(len(dims))]:
            return '%d interface topologies named %r, expected one per dimension axis' % (len(parts), names)
        # property level: the pairs (element, neighbour) that the REAL transforms / opposites of the interfaces address
        pairs = []
        for q, t in enumerate(parts):
            for tr, op in zip(t.transforms, t.opposites):
                a, _ = topo.transforms.index_with_tail(tr)
                b, _ = topo.transforms.index_with_tail(op)
                pairs.append((q, a, b))
        want = []
        for q in range(len(n)):
            for e in itertools.product(*[range(x) for x in n]):
                nb = list(e)
                nb[q] += 1
                if nb[q] >= n[q]:
                    if not per[q]:
                        continue
                    nb[q] = 0
                want.append((q, int(numpy.ravel_multi_index(e, n)), int(numpy.ravel_multi_index(nb, n))))
        if sorted(pairs) != sorted(want):
            missing = sorted(set(want) - set(pairs))[:3]
            extra = sorted(set(pairs) - set(want))[:3]
            dup = sorted(set(p for p in pairs if pairs.count(p) > 1))[:3]
            return 'shape %r periodic %r: interfaces pair (direction, element, neighbour): missing %r, wrong %r, repeated %r (%d listed, %d expected)' % (n, per, missing, extra, dup, len(pairs), len(want))
        if len(ifaces) != len(want):
            return 'len(interfaces) = %d, expected %d' % (len(ifaces), len(want))
    return check


def interfaces(config, model):
    _run('StructuredTopology.interfaces', _chk_interfaces(config), _config_cases(config), _config_from(config, model))


def _chk_refined(config):
    def check(case):
        axes, nref = case
        topo = _topo(config, axes, nref)
        r = topo.refined
        want = []
        for c, a in zip(config, axes):
            if c == 'D':
                want.append(('DimAxis', 2 * a[0], 2 * a[1], 2 * a[2], bool(a[3])))
            else:
                want.append(('IntAxis', 2 * a[0] + a[3], 2 * a[0] + a[3] + 1, 2 * a[2], bool(a[3]), _axes_of(topo)[len(want)][-1]))
        if _axes_of(r) != want:
            return 'refined axes %r, expected %r' % (_axes_of(r), want)
        if r.nrefine != nref + 1 or r.root != topo.root:
            return 'nrefine %r root %r' % (r.nrefine, r.root)
        if tuple(r.shape) != tuple(2 * s for s in topo.shape):
            return 'shape %r, expected doubled %r' % (r.shape, topo.shape)
    return check


def refined(config, model):
    _run('StructuredTopology.refined', _chk_refined(config), _config_cases(config), _config_from(config, model))


def _chk_refined_boundary(config):
    def check(case):
        axes, nref = case
        topo = _topo(config, axes, nref)
        p1, n1 = _parts(topo.refined.boundary)
        p2, n2 = _parts(topo.boundary.refined) if len(topo.boundary) else ([], [])
        if len(p1) != len(p2) or list(n1) != list(n2):
            return 'boundary(refined) has sides %r, refined(boundary) %r' % (n1, n2)
        for a, b in zip(p1, p2):
            if _axes_of(a) != _axes_of(b) or a.nrefine != b.nrefine or _st_axes(a.opposites) != _st_axes(b.opposites):
                return 'boundary(refined) side %r / opposite %r differs from refined(boundary) %r / %r' % (_axes_of(a), _st_axes(a.opposites), _axes_of(b), _st_axes(b.opposites))
    return check


def refined_boundary(config, model):
    _run('refined . boundary', _chk_refined_boundary(config), _config_cases(config), _config_from(config, model))


def _chk_slice(config, idim):
    def check(case):
        axes, nref, a, b = case
        topo = _topo(config, axes, nref)
        k = _dims(config)[idim]
        r = topo.slice(slice(a, b), idim)
        want = _axes_of(topo)
        i, j, mod, p = axes[k]
        want[k] = ('DimAxis', i + a, i + b, mod, False)
        if _axes_of(r) != want:
            return 'slice(%d:%d, dim %d) axes %r, expected %r' % (a, b, idim, _axes_of(r), want)
        if r.nrefine != nref or r.root != topo.root or r._bnames != topo._bnames:
            return 'root / nrefine / names changed'
    return check


def slice_(config, idim, model):
    mc = _config_from(config, model)
    a, b = _val(model, 'start'), _val(model, 'stop')
    if mc is not None:
        k = _dims(config)[idim]
        n = mc[0][k][1] - mc[0][k][0]
        mc = mc + (a, b) if a is not None and b is not None and 0 <= a < b <= n else None
    cases = []
    for axes, nref in _config_cases(config):
        k = _dims(config)[idim]
        n = axes[k][1] - axes[k][0]
        for a in range(n):
            for b in range(a + 1, n + 1):
                if (a, b) != (0, n) or True:
                    cases.append((axes, nref, a, b))
    _run('StructuredTopology.slice', _chk_slice(config, idim), cases, mc)


# -------------------------------------------------------------------------- SubsetTopology.connectivity (index level) --

class _FakeRef:
    def __init__(self, keep, nedges):
        self.keep, self.nedges = keep, nedges

    def __bool__(self):
        return self.keep


def _chk_subset(case):
    import types as _t
    from nutils import topology
    table, keep, extra = case
    N = len(table)
    me = _t.SimpleNamespace(refs=tuple(_FakeRef(k, len(row) + x) for k, row, x in zip(keep, table, extra)),
                            basetopo=_t.SimpleNamespace(connectivity=tuple(numpy.array(row, dtype=int) for row in table)))
    res = [list(map(int, r)) for r in topology.SubsetTopology.connectivity.func(me)]
    K = [i for i in range(N) if keep[i]]
    ren = {i: a for a, i in enumerate(K)}
    want = [[ren.get(c, -1) if c >= 0 else -1 for c in table[i]] + [-1] * extra[i] for i in K]
    if res != want:
        return 'subset connectivity %r, expected %r (kept %r of base table %r)' % (res, want, K, table)


def _subset_tables(N, E):
    """symmetric, paired base tables: all tables with entries in [-1, N) that pair faces (small N, E: exhaustive up to a cap)"""
    out = []
    for flat in itertools.product(range(-1, N), repeat=N * E):
        t = [list(flat[i * E:(i + 1) * E]) for i in range(N)]
        if all(t[i].count(j) == t[j].count(i) for i in range(N) for j in range(N)):
            out.append(t)
            if len(out) >= 300:
                break
    return out


def subset_connectivity(N, E, extra, model, empty=False):
    mc = None
    try:
        table = [[_val(model, 'c_%d_%d' % (i, e)) for e in range(E)] for i in range(N)]
        keep = [bool(_val(model, 'keep%d' % i, False)) for i in range(N)]
        if all(x is not None and -1 <= x < N for r in table for x in r):
            mc = (table, keep, tuple(extra))
    except Exception:
        mc = None
    if mc is not None and any(mc[1]) == empty:
        mc = None  # outside the precondition of this contract (nothing kept / something kept)
    cases = [(t, keep, tuple(extra)) for t in _subset_tables(N, E) for keep in itertools.product((False, True), repeat=N) if any(keep) != empty]
    _run('SubsetTopology.connectivity', _chk_subset, cases, mc)


# ------------------------------------------------------------- bounded stand-ins: exhaustive native table checks --

def _jsonable(o):
    if isinstance(o, numpy.integer):
        return int(o)
    if isinstance(o, numpy.ndarray):
        return o.tolist()
    return repr(o)


def _ref_family():
    from nutils import element
    line, tri, tet = element.LineReference(), element.TriangleReference(), element.TetrahedronReference()
    return [('line', line), ('square', line**2), ('cube', line**3), ('triangle', tri), ('tetrahedron', tet), ('triangle x line', tri * line), ('line x triangle', line * tri)]


def _key(points):
    return frozenset(tuple(round(float(x), 9) for x in p) for p in numpy.asarray(points, dtype=float))


def reference_tables():
    """Reference.connectivity / edgechildren against the GEOMETRY of the children: the face (child, edge) is the set of its
    vertex coordinates in the parent's coordinates; exhaustive over every (child, edge) of every reference in the family."""
    import json
    cases, failures = 0, []
    for name, ref in _ref_family():
        try:
            _ = ref.connectivity, ref.edgechildren
        except Exception as ex:  # the real code raised where tables are expected
            cases += 1
            for cl in ('connectivity-is-the-face-adjacency', 'edgechildren-are-the-children-of-the-edge'):
                failures.append(dict(clause=cl, ref=name, raised='%s: %s' % (type(ex).__name__, ex)))
            continue
        faces = {}
        for i, (ctrans, cref) in enumerate(ref.children):
            for e, (etrans, eref) in enumerate(cref.edges):
                faces[i, e] = _key(ctrans.apply(etrans.apply(eref.vertices)))
        conn = [list(map(int, c)) for c in ref.connectivity]
        listed = {}
        for iedge, (etrans, eref) in enumerate(ref.edges):
            ech = [tuple(map(int, x)) for x in ref.edgechildren[iedge]]
            if len(ech) != eref.nchildren:
                failures.append(dict(clause='edgechildren-are-the-children-of-the-edge', ref=name, edge=iedge, got=len(ech), expected=eref.nchildren))
            for k, ((ctrans, cref), (ichild, ichildedge)) in enumerate(zip(eref.children, ech)):
                cases += 1
                listed.setdefault((ichild, ichildedge), []).append((iedge, k))
                if faces.get((ichild, ichildedge)) != _key(etrans.apply(ctrans.apply(cref.vertices))):
                    failures.append(dict(clause='edgechildren-are-the-children-of-the-edge', ref=name, edge=iedge, edgechild=k, entry=[ichild, ichildedge]))
        for (i, e), f in faces.items():
            cases += 1
            partners = [(j, g) for (j, g), h in faces.items() if h == f and (j, g) != (i, e)]
            want = partners[0][0] if len(partners) == 1 else -1
            if len(partners) > 1:
                failures.append(dict(clause='every-child-face-exactly-once', ref=name, child=i, edge=e, partners=partners))
            if conn[i][e] != want:
                failures.append(dict(clause='connectivity-is-the-face-adjacency', ref=name, child=i, edge=e, got=conn[i][e], expected=want))
            if conn[i][e] >= 0 and i not in conn[conn[i][e]]:
                failures.append(dict(clause='connectivity-symmetric', ref=name, child=i, edge=e, neighbour=conn[i][e]))
            nlisted = len(listed.get((i, e), []))
            if (want == -1 and nlisted != 1) or (want != -1 and nlisted != 0):
                failures.append(dict(clause='every-child-face-exactly-once', ref=name, child=i, edge=e, interior_partner=want, times_listed_in_edgechildren=nlisted))
    print('BOUNDED-RESULT ' + json.dumps(dict(cases=cases, failures=failures[:10]), default=_jsonable))


def _base_family(two_per_period=False):
    """small base topologies with an injective (mod period) geometry: (name, topo, geom, periods).
    two_per_period: ONLY the structured meshes with exactly two elements along a periodic direction (two elements that share two
    faces) -- the family of the PARKED stand-ins (candidate defects); the regular family excludes them."""
    from nutils import mesh
    out = []
    if two_per_period:
        for shape, periodic in (([2], (0,)), ([2, 3], (0,)), ([1, 2], (1,)), ([3, 2], (0, 1)), ([2, 2, 2], (2,))):
            topo, geom = mesh.rectilinear(shape, periodic=periodic)
            out.append(('rectilinear%r periodic%r' % (shape, periodic), topo, geom, [shape[d] if d in periodic else 0 for d in range(len(shape))]))
        return out
    for shape, periodic in (([1], ()), ([3], ()), ([3], (0,)), ([4], (0,)), ([2, 2], ()), ([3, 2], (0,)), ([3, 1], (0,)), ([2, 3], (1,)), ([2, 1, 2], ()), ([2, 3, 1], (1,))):
        topo, geom = mesh.rectilinear(shape, periodic=periodic)
        out.append(('rectilinear%r periodic%r' % (shape, periodic), topo, geom, [shape[d] if d in periodic else 0 for d in range(len(shape))]))
    for n in (1, 2):
        topo, geom = mesh.unitsquare(n, 'triangle')
        out.append(('unitsquare(%d, triangle)' % n, topo, geom, [0, 0]))
    topo, geom = mesh.unitsquare(2, 'mixed')
    out.append(('unitsquare(2, mixed)', topo, geom, [0, 0]))
    return out


def _face_keys(topo, geom, periods):
    """per element, per edge: the set of vertex coordinates of that face (mod the periods)"""
    from nutils import transform
    keys = []
    smp = topo.sample('vertex', 0) if False else None
    for ielem, ref in enumerate(topo.references):
        row = []
        for etrans, eref in ref.edges:
            if not eref:
                row.append(None)
                continue
            pts = etrans.apply(eref.vertices)
            x = _eval_at(topo, geom, ielem, pts)
            x = numpy.concatenate([x, x.mean(0)[None]])  # the centroid too: with two elements per period the vertex sets alone coincide mod the period
            for d, p in enumerate(periods):
                if p:
                    x[:, d] = numpy.mod(numpy.round(x[:, d], 9), p)
            row.append((_key(x[:-1]), tuple(numpy.round(x[-1], 9))))
        keys.append(row)
    return keys


def _eval_at(topo, geom, ielem, pts):
    from nutils import sample as _sample, points as _points, types as _types
    from nutils.pointsseq import PointsSequence
    from nutils.sample import Sample
    sub = topo[numpy.array([ielem])]
    ps = PointsSequence.from_iter([_points.CoordsPoints(_types.arraydata(numpy.asarray(pts, dtype=float)))], topo.ndims)
    smp = Sample.new(topo.space, (sub.transforms, sub.opposites), ps)
    return numpy.array(smp.eval(geom), dtype=float)


def _adjacency_failures(name, topo, geom, periods, clause_prefix, failures):
    """connectivity of `topo` against the geometry: [ielem][iedge] is THE other element with the same face, else -1"""
    keys = _face_keys(topo, geom, periods)
    conn = [list(map(int, c)) for c in topo.connectivity]
    owners = {}
    for i, row in enumerate(keys):
        for e, k in enumerate(row):
            if k is not None:
                owners.setdefault(k, []).append((i, e))
    cases = 0
    for i, row in enumerate(keys):
        for e, k in enumerate(row):
            if k is None:
                continue
            cases += 1
            others = [j for j, g in owners[k] if (j, g) != (i, e)]
            want = others[0] if len(others) == 1 else -1
            if len(others) > 1:
                failures.append(dict(clause=clause_prefix + 'every-face-between-at-most-two-elements', topo=name, element=i, edge=e, others=others))
            if conn[i][e] != want:
                failures.append(dict(clause=clause_prefix + 'connectivity-is-the-face-adjacency', topo=name, element=i, edge=e, got=conn[i][e], expected=want))
            if conn[i][e] >= 0 and i not in conn[conn[i][e]]:
                failures.append(dict(clause=clause_prefix + 'connectivity-symmetric', topo=name, element=i, edge=e, neighbour=conn[i][e]))
    return cases


def refined_connectivity(two_per_period=False):
    """RefinedTopology.connectivity (the generic class, also over structured bases) against the geometry of the refined elements"""
    import json
    from nutils import topology
    cases, failures = 0, []
    for name, topo, geom, periods in _base_family(two_per_period):
        for depth in (1, 2):
            r = topo
            for _ in range(depth):
                r = topology.RefinedTopology(r)
            if len(r) > 300:
                continue
            try:
                cases += _adjacency_failures('%s refined %dx' % (name, depth), r, geom, [p for p in periods], '', failures)
            except Exception as e:
                failures.append(dict(clause='connectivity-is-the-face-adjacency', topo=name, raised='%s: %s' % (type(e).__name__, e)))
    print('BOUNDED-RESULT ' + json.dumps(dict(cases=cases, failures=failures[:10]), default=_jsonable))


def subset_boundary_interfaces(two_per_period=False):
    """SubsetTopology over every non-empty subset of small bases: connectivity is the face adjacency among the kept elements; the
    boundary lists exactly the exposed faces (no kept neighbour), the interfaces exactly the faces between two kept elements, once."""
    import json
    from nutils import topology
    cases, failures = 0, []
    for name, topo, geom, periods in _base_family(two_per_period):
        N = len(topo)
        if N > 6:
            continue
        keys = _face_keys(topo, geom, periods)
        for mask in itertools.product((False, True), repeat=N):
            if not any(mask):
                continue  # the empty subset is the parked contract (candidate defect)
            sub = topology.SubsetTopology(topo, [ref if keep else ref.empty for ref, keep in zip(topo.references, mask)])
            tag = '%s kept %s' % (name, ''.join('1' if k else '0' for k in mask))
            try:
                cases += _adjacency_failures(tag, sub, geom, periods, '', failures)
                kept = [i for i in range(N) if mask[i]]
                owners = {}
                for i in kept:
                    for e, k in enumerate(keys[i]):
                        owners.setdefault(k, []).append(i)
                exposed = sorted(kept.index(i) for k, own in owners.items() if len(own) == 1 for i in own)
                shared = sorted(tuple(sorted(kept.index(i) for i in own)) for k, own in owners.items() if len(own) == 2)
                # a face of a periodic one-element axis is shared by the element with itself: listed twice by the same owner
                bnd = sorted(sub.transforms.index_with_tail(t)[0] for t in sub.boundary.transforms)
                ifc = sorted(tuple(sorted((sub.transforms.index_with_tail(t)[0], sub.transforms.index_with_tail(o)[0]))) for t, o in zip(sub.interfaces.transforms, sub.interfaces.opposites))
                cases += 2
                if bnd != exposed:
                    failures.append(dict(clause='boundary-is-the-exposed-faces', topo=tag, got=bnd, expected=exposed))
                if ifc != shared:
                    failures.append(dict(clause='interfaces-list-every-interior-face-once', topo=tag, got=ifc, expected=shared))
            except Exception as e:
                failures.append(dict(clause='connectivity-is-the-face-adjacency', topo=tag, raised='%s: %s' % (type(e).__name__, e)))
    print('BOUNDED-RESULT ' + json.dumps(dict(cases=cases, failures=failures[:10]), default=_jsonable))
