"""Cross-check of the small-matrix numpy facts the C08 edge-transform contracts assume (contracts/c08_edges.py SArr / NPm):
what each modelled operation returns is recomputed here entry by entry from the model's definition and compared with numpy."""
import numpy


def run(check, rng):
    n, m = int(rng.randint(1, 4)), int(rng.randint(0, 4))
    a = rng.randint(-4, 5, size=(n, m)).astype(float)
    b = rng.randint(-4, 5, size=(m, n)).astype(float)
    v = rng.randint(-4, 5, size=m).astype(float)
    check('c08-dot-matrix-matrix', (numpy.dot(a, b) == [[sum(a[i][k] * b[k][j] for k in range(m)) for j in range(n)] for i in range(n)]).all(), a, b)
    check('c08-dot-matrix-vector', (numpy.dot(a, v) == [sum(a[i][k] * v[k] for k in range(m)) for i in range(n)]).all(), a, v)
    check('c08-dot-vector-matrix', (numpy.dot(v, b) == [sum(v[k] * b[k][j] for k in range(m)) for j in range(n)]).all(), v, b)
    check('c08-transpose', a.T.shape == (m, n) and all(a.T[j][i] == a[i][j] for i in range(n) for j in range(m)), a)
    check('c08-broadcast-rows-minus-vector', ((a - v) == [[a[i][j] - v[j] for j in range(m)] for i in range(n)]).all(), a, v)
    check('c08-eye-zeros-ones', (numpy.eye(n) == [[1 if i == j else 0 for j in range(n)] for i in range(n)]).all() and not numpy.zeros((n, m)).any() and (numpy.ones(n) == 1).all() and numpy.eye(0).shape == (0, 0))
    c = rng.randint(-4, 5, size=(int(rng.randint(0, 3)), m)).astype(float)
    cat = numpy.concatenate([a, c], axis=0)
    check('c08-concatenate-rows', cat.shape == (n + len(c), m) and (cat[:n] == a).all() and (cat[n:] == c).all(), a, c)
    check('c08-concatenate-vectors', (numpy.concatenate([v, numpy.zeros(n)]) == list(v) + [0] * n).all(), v)
    idx = [int(k) for k in rng.permutation(n)[:int(rng.randint(0, n + 1))]]
    check('c08-index-list-selects-rows', a[idx].shape == (len(idx), m) and all((a[idx][r] == a[k]).all() for r, k in enumerate(idx)), a, idx)
    check('c08-newaxis', v[None, :].shape == (1, m) and (v[None, :][0] == v).all() and numpy.asarray(3.)[numpy.newaxis, numpy.newaxis].shape == (1, 1))
    z = numpy.zeros((n + 2, m + 1))
    z[1:1 + n, 1:1 + m] = a
    check('c08-slice-store', all(z[i][j] == (a[i - 1][j - 1] if 1 <= i <= n and 1 <= j <= m else 0) for i in range(n + 2) for j in range(m + 1)), a)
    k = int(rng.randint(0, 4))
    M = rng.randint(-3, 4, size=(k, k)).astype(float)
    if k == 0:
        d = 1
    elif k == 1:
        d = M[0][0]
    elif k == 2:
        d = M[0][0] * M[1][1] - M[0][1] * M[1][0]
    else:
        d = M[0][0] * (M[1][1] * M[2][2] - M[1][2] * M[2][1]) - M[0][1] * (M[1][0] * M[2][2] - M[1][2] * M[2][0]) + M[0][2] * (M[1][0] * M[2][1] - M[1][1] * M[2][0])
    check('c08-det-cofactor', abs(numpy.linalg.det(M) - d) < 1e-9, M)
    shapes = numpy.array([(int(rng.randint(0, 3)), int(rng.randint(0, 3))) for _ in range(int(rng.randint(1, 4)))])
    check('c08-shape-table', tuple(shapes.sum(0)) == (sum(s[0] for s in shapes), sum(s[1] for s in shapes)) and [tuple(r) for r in shapes.cumsum(0)] == [(sum(s[0] for s in shapes[:q + 1]), sum(s[1] for s in shapes[:q + 1])) for q in range(len(shapes))], shapes)
