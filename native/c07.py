"""Native replay for C07: function arrays indexed with a slice vs numpy."""
import numpy


def takeslice(m):
    from nutils import function
    n = int(m.get('n', 3))
    start = int(m['start']) if 'start' in m else None
    stop = int(m['stop']) if 'stop' in m else None
    cands = [(n, start, stop)] + [(3, a, b) for a in (None, -10, -1, 1, 10) for b in (None, -10, -1, 1, 10)]
    for n, a, b in cands:
        if n > 50 or n < 0:
            continue
        ref = numpy.arange(float(n))
        s = slice(a, b)
        try:
            r = function.Array.cast(ref)[s]
            val = r.eval()
        except Exception as e:
            print('function array of length %d indexed with %r raised %s: %s ; numpy gives %s' % (n, s, type(e).__name__, str(e)[:80], ref[s].tolist()))
            print('REPLAY: VIOLATION-CONFIRMED a slice numpy accepts is rejected')
            return
        if r.shape != ref[s].shape or (numpy.asarray(val) != ref[s]).any():
            print('length %d, slice %r: nutils shape %s values %s, numpy %s' % (n, s, r.shape, numpy.asarray(val).tolist(), ref[s].tolist()))
            print('REPLAY: VIOLATION-CONFIRMED')
            return
    print('REPLAY: not reproduced')


def getitem(ndim, pattern):
    from nutils import function
    import itertools
    shape = (2, 3, 4)[:ndim]
    ref = numpy.arange(float(numpy.prod(shape, dtype=int))).reshape(shape)
    choices = []
    for kind in pattern:
        choices.append({'int': [0, -1, 1], 'full': [slice(None)], 'slice': [slice(1, None), slice(-10, 1), slice(1, 10), slice(2, 1)], 'ellipsis': [Ellipsis], 'newaxis': [None]}[kind])
    for item in itertools.product(*choices):
        try:
            want = ref[item]
            np_ok = True
        except IndexError:
            np_ok = False
        try:
            got = function.Array.cast(ref)[item if len(item) != 1 else item[0]]
            ok = True
        except Exception as e:
            ok, err = False, e
        if np_ok and not ok:
            print('array of shape %s indexed with %r raised %s: %s ; numpy shape %s' % (shape, item, type(err).__name__, str(err)[:60], want.shape))
            print('REPLAY: VIOLATION-CONFIRMED')
            return
        if ok and not np_ok:
            print('array of shape %s indexed with %r accepted (shape %s); numpy raises IndexError' % (shape, item, got.shape))
            print('REPLAY: VIOLATION-CONFIRMED')
            return
        if ok and (tuple(got.shape) != want.shape or (numpy.asarray(got.eval()) != want).any()):
            print('array of shape %s indexed with %r: nutils shape %s, numpy shape %s' % (shape, item, got.shape, want.shape))
            print('REPLAY: VIOLATION-CONFIRMED')
            return
    print('REPLAY: not reproduced')


def interp_grid():
    """numpy.interp on a function array against numpy.interp on its values: every x of a grid that contains the knots themselves,
    points between, and points outside, for left/right given or not (BOUNDED native enumeration)."""
    import json, itertools, numpy
    from nutils import function, evaluable
    cases, failures = 0, []
    x = function.Argument('x', (), float)
    for xp, fp in (([0., 1., 2.], [10., 20., 15.]), ([-1., 3.], [2., -2.]), ([0., .5, .75, 4.], [1., 1., 3., 0.]), ([2.], [7.])):
        grid = sorted(set(xp) | {v + d for v in xp for d in (-.25, .25)} | {min(xp) - 2, max(xp) + 2})
        for left, right in itertools.product((None, -5.), (None, 99.)):
            f = numpy.interp(x, xp, fp, left=left, right=right)
            ev = evaluable.compile(f.as_evaluable_array) if hasattr(evaluable, 'compile') else None
            for xv in grid:
                cases += 1
                got = float(function.eval(f, arguments=dict(x=numpy.array(xv)))) if hasattr(function, 'eval') else float(f.eval(x=numpy.array(xv)))
                want = float(numpy.interp(xv, xp, fp, left=left, right=right))
                if not abs(got - want) <= 1e-12 * (1 + abs(want)):
                    failures.append(dict(clause='interp-equals-numpy' if len(xp) > 1 else 'interp-single-knot-equals-numpy', xp=xp, fp=fp, left=left, right=right, x=xv, got=got, want=want))
    print('BOUNDED-RESULT ' + json.dumps(dict(cases=cases, failures=failures[:10])))
    if failures:
        print('numpy.interp(x, %(xp)r, %(fp)r, left=%(left)r, right=%(right)r) at x = %(x)r gives %(got)r, NumPy gives %(want)r' % failures[0])
        print('REPLAY: VIOLATION-CONFIRMED interp on a function array differs from NumPy')
    else:
        print('REPLAY: not reproduced (%d cases)' % cases)
