"""Native replay for C07: function arrays indexed with a slice vs numpy."""
import numpy


def takeslice(m):
    from nutils import function
    n = int(m.get('n', 3))
    start = int(m['start']) if 'start' in m else None
    stop = int(m['stop']) if 'stop' in m else None
    cands = [(n, start, stop)] + [(3, a, b) for a in (None, -10, -1, 1, 10) for b in (None, -10, -1, 1, 10)]
    for n, a, b in cands:
        if n > 50 or n < 0:
            continue
        ref = numpy.arange(float(n))
        s = slice(a, b)
        try:
            r = function.Array.cast(ref)[s]
            val = r.eval()
        except Exception as e:
            print('function array of length %d indexed with %r raised %s: %s ; numpy gives %s' % (n, s, type(e).__name__, str(e)[:80], ref[s].tolist()))
            print('REPLAY: VIOLATION-CONFIRMED a slice numpy accepts is rejected')
            return
        if r.shape != ref[s].shape or (numpy.asarray(val) != ref[s]).any():
            print('length %d, slice %r: nutils shape %s values %s, numpy %s' % (n, s, r.shape, numpy.asarray(val).tolist(), ref[s].tolist()))
            print('REPLAY: VIOLATION-CONFIRMED')
            return
    print('REPLAY: not reproduced')


def getitem(ndim, pattern):
    from nutils import function
    import itertools
    shape = (2, 3, 4)[:ndim]
    ref = numpy.arange(float(numpy.prod(shape, dtype=int))).reshape(shape)
    choices = []
    for kind in pattern:
        choices.append({'int': [0, -1, 1], 'full': [slice(None)], 'slice': [slice(1, None), slice(-10, 1), slice(1, 10), slice(2, 1)], 'ellipsis': [Ellipsis], 'newaxis': [None]}[kind])
    for item in itertools.product(*choices):
        try:
            want = ref[item]
            np_ok = True
        except IndexError:
            np_ok = False
        try:
            got = function.Array.cast(ref)[item if len(item) != 1 else item[0]]
            ok = True
        except Exception as e:
            ok, err = False, e
        if np_ok and not ok:
            print('array of shape %s indexed with %r raised %s: %s ; numpy shape %s' % (shape, item, type(err).__name__, str(err)[:60], want.shape))
            print('REPLAY: VIOLATION-CONFIRMED')
            return
        if ok and not np_ok:
            print('array of shape %s indexed with %r accepted (shape %s); numpy raises IndexError' % (shape, item, got.shape))
            print('REPLAY: VIOLATION-CONFIRMED')
            return
        if ok and (tuple(got.shape) != want.shape or (numpy.asarray(got.eval()) != want).any()):
            print('array of shape %s indexed with %r: nutils shape %s, numpy shape %s' % (shape, item, got.shape, want.shape))
            print('REPLAY: VIOLATION-CONFIRMED')
            return
    print('REPLAY: not reproduced')
