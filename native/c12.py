"""Native search for a failing input of util.merge_index_map (exhaustive over small inputs), run after a failed obligation."""
import itertools, numpy


def closure(nin, sets):
    rep = list(range(nin))

    def find(i):
        while rep[i] != i:
            i = rep[i]
        return i
    for s in sets:
        r = [find(i) for i in s]
        for x in r:
            rep[x] = min(r)
    return [find(i) for i in range(nin)]


def run(condense):
    from nutils import _util as util
    for nin in range(1, 6):
        members = list(range(nin))
        cands = [s for k in (1, 2, 3) for s in itertools.product(members, repeat=k)]
        for nsets in (1, 2, 3):
            for sets in itertools.product(cands, repeat=nsets) if nin <= 3 else itertools.islice(itertools.product(cands, repeat=nsets), 0, 20000, 7):
                try:
                    imap, count = util.merge_index_map(nin, sets, condense=condense)
                except Exception as e:
                    print('merge_index_map(%d, %r, condense=%s) raised %s: %s' % (nin, sets, condense, type(e).__name__, e))
                    print('REPLAY: VIOLATION-CONFIRMED valid input rejected')
                    return
                imap = list(map(int, imap))
                ref = closure(nin, sets)
                same = all((imap[i] == imap[j]) == (ref[i] == ref[j]) for i in range(nin) for j in range(nin))
                labels = sorted(set(imap))
                ok = same and len(imap) == nin and count == len(labels) and (labels == list(range(count)) if condense else all(imap[l] == l for l in labels))
                if not ok:
                    print('merge_index_map(%d, %r, condense=%s) = %s, %s ; classes expected %s' % (nin, sets, condense, imap, count, ref))
                    print('REPLAY: VIOLATION-CONFIRMED index map does not realise exactly the prescribed merges')
                    return
    print('REPLAY: not reproduced on the small inputs enumerated')
