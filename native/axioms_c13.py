"""Cross-checks of the axioms added by the C13 extension (contracts/c13_ext.py, c13_runtime.py, c13_dag.py, c13_degree.py)
against the real nutils / numpy, on random small inputs.  Called from native/axioms.py:run."""
import numpy


def run(rng, check, rounds=40):
    from nutils import function, evaluable as ev, _util
    dtypes = (bool, int, float, complex)
    for _ in range(rounds):
        # ---- function.Array metadata (c13_ext.FArr.binop, NumpyMeta.sum, UtilMeta.sum)
        s = tuple(int(x) for x in rng.randint(1, 4, size=rng.randint(0, 3)))
        t = tuple(int(x) for x in rng.randint(1, 4, size=rng.randint(0, 3)))
        da, db = (dtypes[int(rng.randint(1, 4))] for _ in range(2))
        A = function.Argument('A', s + t, da)
        B = function.Argument('B', t, db)
        C = function.Argument('C', s + t, da)
        for op, nm in ((lambda x, y: x * y, 'multiply'), (lambda x, y: x + y, 'add')):
            P = op(A, B)
            check('function-%s-broadcast(s+t,t)=s+t' % nm, P.shape == s + t, s, t)
            check('function-%s-arguments-are-joined' % nm, dict(P.arguments) == {'A': (s + t, da), 'B': (t, db)}, s, t)
            check('function-%s-spaces-are-united' % nm, P.spaces == A.spaces | B.spaces)
            Q = op(A, C)
            check('function-%s-same-shape-and-dtype-kept' % nm, Q.shape == s + t and Q.dtype == da, s, t)
        S = numpy.sum(A * B, len(s) + numpy.arange(len(t)))
        check('function-sum-over-trailing-axes-leaves-leading-shape', S.shape == s and dict(S.arguments) == dict((A * B).arguments) and S.spaces == A.spaces, s, t)
        if da in (int, float, complex):
            check('function-sum-keeps-int-float-complex-dtype', numpy.sum(A, len(s) + numpy.arange(len(t))).dtype == da, da)
        check('util.sum-single-item-is-the-item', _util.sum([A]) is A)
        try:
            _util.sum([])
            check('util.sum-empty-raises-TypeError', False)
        except TypeError:
            pass
        check('Argument-default-dtype-is-float-and-spaces-empty', function.Argument('x', s).dtype == float and not function.Argument('x', s).spaces and dict(function.Argument('x', s).arguments) == {'x': (s, float)})
        check('tuple-concatenation-length', len(s + t) == len(s) + len(t))
        # ---- shapes of known rank (c13_ext.TArr)
        r = int(rng.randint(1, 4))
        sh = tuple(int(x) for x in rng.randint(1, 4, size=r))
        X = function.Argument('X', sh, float)
        perm = tuple(int(i) for i in rng.permutation(r))
        check('transpose-permutes-the-shape', X.transpose(perm).shape == tuple(sh[i] for i in perm) and dict(X.transpose(perm).arguments) == dict(X.arguments), sh, perm)
        ext = tuple(int(x) for x in rng.randint(1, 4, size=rng.randint(0, 3)))
        check('_append_axes-appends', function._append_axes(X, ext).shape == sh + ext and dict(function._append_axes(X, ext).arguments) == dict(X.arguments), sh, ext)
        ax = int(rng.randint(0, r))
        check('sum-removes-the-axis', numpy.sum(X, ax).shape == sh[:ax] + sh[ax + 1:], sh, ax)
        sh2 = tuple(int(x) for x in rng.randint(1, 3, size=rng.randint(0, 4)))
        Y = function.Argument('Y', sh2, float)
        try:
            want = numpy.broadcast_shapes(sh, sh2)
        except ValueError:
            want = None
        try:
            got = (X * Y).shape
        except ValueError:
            got = None
        check('multiply-broadcasts-like-numpy-or-raises-ValueError', got == want, sh, sh2)
        # ---- numpy.asarray keeps the shape of what it is given (c13_runtime)
        v = numpy.asarray(rng.rand(*s)) if rng.randint(0, 2) else numpy.asarray(rng.rand(*s)).tolist()
        check('asarray-keeps-shape', numpy.asarray(v, dtype='float64').shape == numpy.shape(v) == s, s)
        # ---- _reduce / IDDict (c13_dag)
        u = ev.Argument('u', (ev.constant(2),), float)
        w = ev.Argument('w', (ev.constant(2),), float)
        for obj in (ev.Power(u, w), ev.Sin(u), ev.Tuple((u, w)), u):
            red = _util._reduce(obj)
            check('_reduce-node-is-constructor-and-fields', bool(red) and red[0] is type(obj) and red[0](*red[1]) == obj, repr(obj))
        check('_reduce-argument-fields', _util._reduce(u)[1] == ('u', u.shape, float))
        check('_reduce-tuple', _util._reduce((u, w))[1] == (u, w) and _util._reduce((u, w))[0](*(u, w)) == (u, w) and _util._reduce(()) is None)
        check('_reduce-terminals', all(_util._reduce(x) is None for x in ('u', 3, 2.5, None, float, True)))
        d = _util.IDDict()
        k1, k2 = [1, 2], [1, 2]
        d[k1] = 'a'
        check('IDDict-is-keyed-by-identity', d.get(k1) == 'a' and d.get(k2) is None and d.get(k2, 5) == 5)
        sh1 = tuple(ev.constant(int(x)) for x in rng.randint(1, 4, size=rng.randint(0, 3)))
        sh2 = tuple(ev.constant(int(x)) for x in rng.randint(1, 4, size=rng.randint(0, 3)))
        if ev._any_certainly_different(sh1, sh2):
            check('certainly-different-implies-different', tuple(int(n.__index__()) for n in sh1) != tuple(int(n.__index__()) for n in sh2))
        check('asarray-of-an-evaluable-array-is-itself', ev.asarray(u) is u)
    # ---- degree meanings (c13_degree KIND): each node type applied to inputs of KNOWN degree has vanishing differences of the order its MEANING allows
    from native import c13
    ev, I = c13._degree_instances()
    known = {'u': 1, 'u*u*u': 3, 'u*u': 2, 'u*u + u': 2, 'u + u*u*u': 3, 'u**3': 3, '(u*u)**2': 4, '(u*u)**3': 6, '(u*u)[[0,2]]': 2, 'inflate(u*u)': 2, 'sum(u*u)': 2,
             'insertaxis(u*u, 2)': 2, 'transpose(insertaxis(u*u*u))': 3, 'diagonalize(u*u)': 2, 'takediag(diagonalize(u*u))': 2, 'ravel(insertaxis(u*u, 2))': 2,
             'unravel(u6*u6, 2, 3)': 2, 'loop_sum(u*u*i)': 2, 'loop_concatenate(u*u)': 2, 'Monomial(v, (u, u, u))': 3, 'Monomial(u, (u,))': 2}
    for k, l in I.items():
        for what, node, arg, line in l:
            if what not in known:
                continue
            d = known[what]
            f = ev.compile(node)
            vals = numpy.array([numpy.asarray(f(line(t)), dtype=float) for t in range(d + 2)])
            check('degree-meaning-%s' % k, abs(numpy.diff(vals, n=d + 1, axis=0)).max() <= 1e-7 * max(1., abs(vals).max()), what)
            if d:
                check('degree-meaning-%s-is-attained' % k, abs(numpy.diff(vals[:d + 1], n=d, axis=0)).max() > 1e-9, what)
