"""Bounded native enumerations for C11, second round (run under /venv/bin/python against $VERIF_REPO/src):

  getitem_forms(cls)   array / slice / mask forms of transformseq <cls>.__getitem__ on small real sequences: item k of the result is self[indices[k]]
  chain_fn()           transformseq.chain: flattening, empty items dropped, dimension checks
  containers(mod, cls) elementseq / pointsseq container algebra (take/compress/repeat/product/chain/get/len/iter/slices) of one class

Each prints  BOUNDED-RESULT {json}  and, on failure,  REPLAY: VIOLATION-CONFIRMED ...
"""
import itertools, json
import numpy


def _finish(cases, failures, what):
    print('BOUNDED-RESULT ' + json.dumps(dict(cases=cases, failures=failures[:12])))
    if failures:
        for f in failures[:3]:
            print('  ', f)
        print('REPLAY: VIOLATION-CONFIRMED ' + what)
    else:
        print('REPLAY: not reproduced (%d cases)' % cases)


# ------------------------------------------------------------------------------------------------ transformseq --

def _tseqs():
    """name -> list of small real Transforms objects of that class (constructed directly, lengths <= 6)"""
    from nutils import transformseq as ts, transform, element, types
    from nutils.elementseq import References
    line = element.LineReference()
    sq = line**2
    ad = lambda a: types.arraydata(numpy.array(a, dtype=int))
    idx = lambda n, off=0: ts.IndexTransforms(1, n, off)
    wc = element.WithChildrenReference(line, (line.child_refs[0], line.child_refs[1].empty))
    out = {}
    out['IndexTransforms'] = [idx(4, 2), idx(1), idx(5)]
    out['StructuredTransforms'] = [ts.StructuredTransforms(transform.Index(2, 0), (ts.DimAxis(0, 2, 0, False), ts.DimAxis(1, 3, 0, False)), 0),
                                   ts.StructuredTransforms(transform.Index(1, 0), (ts.DimAxis(0, 4, 4, True),), 1),
                                   ts.StructuredTransforms(transform.Index(2, 0), (ts.DimAxis(0, 3, 0, False), ts.IntAxis(1, 2, 0, 1, False)), 1)]
    ch = line.child_transforms
    out['PlainTransforms'] = [ts.PlainTransforms(((transform.Index(1, 3),), (transform.Index(1, 1), ch[1]), (transform.Index(1, 1), ch[0]), (transform.Index(1, 0),)), 1, 1)]
    out['MaskedTransforms'] = [ts.MaskedTransforms(idx(6), ad([0, 2, 3, 5])), ts.MaskedTransforms(ts.ReorderedTransforms(idx(4), ad([2, 0, 3, 1])), ad([1, 2, 3]))]
    out['ReorderedTransforms'] = [ts.ReorderedTransforms(idx(4), ad([2, 0, 3, 1])), ts.ReorderedTransforms(ts.MaskedTransforms(idx(6), ad([1, 2, 4])), ad([1, 2, 0]))]
    out['UniformDerivedTransforms'] = [ts.UniformDerivedTransforms(idx(2), line, 'child_transforms', 1), ts.UniformDerivedTransforms(idx(2, 3), sq, 'edge_transforms', 1) if False else
                                       ts.UniformDerivedTransforms(ts.IndexTransforms(2, 1), sq, 'edge_transforms', 1)]
    out['DerivedTransforms'] = [ts.DerivedTransforms(idx(3), References.from_iter([line, wc, line], 1), 'child_transforms', 1)]
    m = ts.MaskedTransforms(idx(4, 10), ad([1, 3]))
    r = ts.ReorderedTransforms(idx(3, 20), ad([2, 0, 1]))
    out['ChainedTransforms'] = [ts.ChainedTransforms((idx(2), idx(1, 5), m)), ts.ChainedTransforms((idx(1, 7), r, idx(2))), ts.ChainedTransforms((m, idx(2)))]
    out['EmptyTransforms'] = [ts.EmptyTransforms(1, 1)]
    # the base class dispatch is reached through the classes that defer to it
    out['Transforms'] = out['IndexTransforms'][:2] + out['StructuredTransforms'][:1] + out['PlainTransforms'] + out['DerivedTransforms'] + out['UniformDerivedTransforms'][:1]
    return out


def _elements(seq):
    return [seq[i] for i in range(len(seq))]


def _check_result(res, want, failures, clause, desc):
    """res must be a Transforms whose k-th element is want[k], and whose own lookup is consistent"""
    try:
        got = _elements(res)
        if len(res) != len(want) or got != want:
            failures.append(dict(clause=clause, case=desc, got=repr(got)[:200], want=repr(want)[:200]))
            return
        if list(res) != want:
            failures.append(dict(clause='result-iterates-in-the-same-order', case=desc))
            return
        for k, t in enumerate(want):
            if res.index(t) != k:
                failures.append(dict(clause='result-lookup-consistent', case=desc, k=k, index=res.index(t)))
                return
    except Exception as e:
        failures.append(dict(clause=clause, case=desc, error='%s: %s' % (type(e).__name__, e)))


GETITEM_CLAUSES = ('item-k-is-self[indices[k]]', 'slice-is-the-python-slice', 'mask-selects-in-order', 'invalid-index-is-rejected', 'result-iterates-in-the-same-order', 'result-lookup-consistent')


def getitem_forms(cls):
    seqs = _tseqs()[cls]
    cases, failures = 0, []
    for iseq, seq in enumerate(seqs):
        n = len(seq)
        elems = _elements(seq)
        tag = '%s#%d(len %d)' % (cls, iseq, n)
        # index arrays: every array of length <= 4 with entries in range(n) (unsorted, repeated), plus out-of-range entries
        for k in range(0, min(4, n + 1) + 1):
            for idx in itertools.product(range(n), repeat=k):
                cases += 1
                desc = '%s[%r]' % (tag, list(idx))
                a = numpy.array(idx, dtype=int)
                if len(set(idx)) < len(idx):
                    try:
                        r = seq[a]
                        failures.append(dict(clause='invalid-index-is-rejected', case=desc, got='a sequence of %d elements for repeated indices' % len(r)))
                    except ValueError:
                        pass
                    except Exception as e:
                        failures.append(dict(clause='invalid-index-is-rejected', case=desc, error='%s instead of ValueError' % type(e).__name__))
                    continue
                try:
                    r = seq[a]
                except Exception as e:
                    failures.append(dict(clause='item-k-is-self[indices[k]]', case=desc, error='%s: %s' % (type(e).__name__, e)))
                    continue
                _check_result(r, [elems[i] for i in idx], failures, 'item-k-is-self[indices[k]]', desc)
        # every FULL-LENGTH permutation (incl. unsorted ones that start with 0 and end with len-1) and every partial injective array of length 5, 6
        if 4 < n <= 6 or cls == 'Transforms':
            longer = [p for k in range(5, n + 1) for p in itertools.permutations(range(n), k)] if n <= 6 else []
            for idx in longer:
                cases += 1
                desc = '%s[%r]' % (tag, list(idx))
                try:
                    r = seq[numpy.array(idx, dtype=int)]
                except Exception as e:
                    failures.append(dict(clause='item-k-is-self[indices[k]]', case=desc, error='%s: %s' % (type(e).__name__, e)))
                    continue
                _check_result(r, [elems[i] for i in idx], failures, 'item-k-is-self[indices[k]]', desc)
        for idx in ([n], [-1], [0, n], [-1, 0], [n - 1, n + 2]):
            if n == 0 and idx in ([0, n], [-1, 0]):
                pass
            cases += 1
            try:
                r = seq[numpy.array(idx, dtype=int)]
                failures.append(dict(clause='invalid-index-is-rejected', case='%s[%r]' % (tag, idx), got='a sequence of %d elements for out-of-range indices' % len(r)))
            except IndexError:
                pass
            except Exception as e:
                failures.append(dict(clause='invalid-index-is-rejected', case='%s[%r]' % (tag, idx), error='%s instead of IndexError' % type(e).__name__))
        # slices
        bounds = [None] + list(range(-n - 1, n + 2))
        for start in bounds:
            for stop in bounds:
                for step in (None, 1, 2, 3):
                    cases += 1
                    s = slice(start, stop, step)
                    desc = '%s[%r]' % (tag, s)
                    try:
                        r = seq[s]
                    except Exception as e:
                        failures.append(dict(clause='slice-is-the-python-slice', case=desc, error='%s: %s' % (type(e).__name__, e)))
                        continue
                    _check_result(r, elems[s], failures, 'slice-is-the-python-slice', desc)
        # boolean masks
        for mask in itertools.product([False, True], repeat=n):
            cases += 1
            desc = '%s[mask %r]' % (tag, [int(b) for b in mask])
            try:
                r = seq[numpy.array(mask, dtype=bool)]
            except Exception as e:
                failures.append(dict(clause='mask-selects-in-order', case=desc, error='%s: %s' % (type(e).__name__, e)))
                continue
            _check_result(r, [e for e, b in zip(elems, mask) if b], failures, 'mask-selects-in-order', desc)
        cases += 1
        try:
            seq[numpy.ones(n + 1, dtype=bool)]
            failures.append(dict(clause='invalid-index-is-rejected', case='%s[mask of length %d]' % (tag, n + 1), got='accepted'))
        except IndexError:
            pass
        except Exception as e:
            failures.append(dict(clause='invalid-index-is-rejected', case='%s[mask of length %d]' % (tag, n + 1), error='%s instead of IndexError' % type(e).__name__))
    _finish(cases, failures, 'an array / slice / mask form of %s.__getitem__ does not deliver item indices[k] at position k' % cls)


CHAIN_CLAUSES = ('elements-are-the-concatenation', 'flattened-and-empty-items-dropped', 'dimension-mismatch-is-rejected', 'result-lookup-consistent')


def chain_fn():
    from nutils import transformseq as ts, types
    ad = lambda a: types.arraydata(numpy.array(a, dtype=int))
    idx = lambda n, off=0: ts.IndexTransforms(1, n, off)
    pool = [ts.EmptyTransforms(1, 1), idx(2), idx(1, 5), ts.MaskedTransforms(idx(4, 10), ad([1, 3])), ts.ChainedTransforms((idx(1, 20), idx(2, 30))),
            ts.chain((idx(1, 40), ts.chain((idx(1, 50), idx(1, 60)), 1, 1)), 1, 1)]  # built by chain() itself: items of a ChainedTransforms are never chained (invariant)
    cases, failures = 0, []
    for k in range(0, 4):
        for items in itertools.product(range(len(pool)), repeat=k):
            if len(set(i for i in items if i)) < len([i for i in items if i]):
                continue  # the same non-empty sequence twice violates the precondition of Transforms (duplicate elements)
            cases += 1
            seqs = [pool[i] for i in items]
            desc = 'chain(%r)' % (list(items),)
            want = [e for s in seqs for e in _elements(s)]
            try:
                r = ts.chain(iter(seqs), 1, 1)
            except Exception as e:
                failures.append(dict(clause='elements-are-the-concatenation', case=desc, error='%s: %s' % (type(e).__name__, e)))
                continue
            n0 = len(failures)
            _check_result(r, want, failures, 'elements-are-the-concatenation', desc)
            if len(failures) > n0:
                continue
            flat = [u for s in seqs for u in s.unchain() if len(u)]
            ok = (isinstance(r, ts.EmptyTransforms) and r.todims == 1 and r.fromdims == 1) if not flat else r is flat[0] if len(flat) == 1 else (
                isinstance(r, ts.ChainedTransforms) and list(r._items) == flat and not any(isinstance(u, ts.ChainedTransforms) or len(u) == 0 for u in r._items))
            if not ok:
                failures.append(dict(clause='flattened-and-empty-items-dropped', case=desc, got=repr(r)[:200]))
    for seqs, td, fd in (([idx(2), ts.IndexTransforms(2, 1)], 1, 1), ([idx(2)], 2, 1), ([idx(2)], 1, 0), ([ts.IndexTransforms(2, 1), idx(1)], 2, 2)):
        cases += 1
        try:
            r = ts.chain(seqs, td, fd)
            failures.append(dict(clause='dimension-mismatch-is-rejected', case='chain(%r, %d, %d)' % (seqs, td, fd), got=repr(r)[:100]))
        except ValueError:
            pass
        except Exception as e:
            failures.append(dict(clause='dimension-mismatch-is-rejected', case='chain(%r, %d, %d)' % (seqs, td, fd), error=type(e).__name__))
    _finish(cases, failures, 'transformseq.chain does not deliver the concatenation of its items (flattened, empty items dropped)')


# ------------------------------------------------------------------------------------- elementseq / pointsseq --

def _same_item(a, b):
    if a == b:
        return True
    try:
        if hasattr(a, 'vertices') and hasattr(b, 'vertices'):
            return a.ndims == b.ndims and numpy.array_equal(numpy.asarray(a.vertices), numpy.asarray(b.vertices))
        if hasattr(a, 'coords') and hasattr(b, 'coords'):
            return numpy.array_equal(a.coords, b.coords) and numpy.array_equal(getattr(a, 'weights', 0), getattr(b, 'weights', 0))
    except Exception:
        pass
    return False


def _same_list(got, want):
    return len(got) == len(want) and all(_same_item(a, b) for a, b in zip(got, want))


def _pool(modname):
    """(sequence, expected items) pairs built through the public constructors so that every container class occurs"""
    from nutils import element
    line = element.LineReference()
    if modname == 'elementseq':
        from nutils import elementseq as M
        sq, tri = line**2, element.TriangleReference()
        it2 = [sq, tri, element.WithChildrenReference(sq, tuple(sq.child_refs[:3]) + (sq.child_refs[3].empty,)),
               element.WithChildrenReference(tri, tuple(tri.child_refs[:2]) + (tri.child_refs[2].empty, tri.child_refs[3]))]
        it1 = [line, element.WithChildrenReference(line, (line.child_refs[0], line.child_refs[1].empty))]
        mk = lambda items, nd: M.References.from_iter(items, nd)
        uni = lambda item, n: M.References.uniform(item, n)
        empty = lambda nd: M.References.empty(nd)
        d2, d1 = 2, 1
    else:
        from nutils import pointsseq as M
        it2 = [line.getpoints('gauss', d) for d in (1, 3, 5, 7)]
        it1 = [line.getpoints('gauss', d) for d in (2, 4)]
        mk = lambda items, nd: M.PointsSequence.from_iter(items, nd)
        uni = lambda item, n: M.PointsSequence.uniform(item, n)
        empty = lambda nd: M.PointsSequence.empty(nd)
        d2, d1 = 1, 1
    a, b, c, d = it2
    x, y = it1
    P = (mk([a, b, c], d2), [a, b, c])
    U = (uni(a, 3), [a, a, a])
    T = (P[0].take(numpy.array([2, 0, 1, 0])), [c, a, b, a])
    R = (P[0].repeat(2), [a, b, c, a, b, c])
    C = (P[0].chain(mk([c, d], d2)), [a, b, c, c, d])
    C2 = (mk([a, b], d2).chain(U[0]), [a, b, a, a, a])
    Q = (mk([x, y], d1), [x, y])
    QU = (uni(x, 2), [x, x])
    X = (P[0].product(Q[0]), [p.product(q) for p in P[1] for q in Q[1]])
    X2 = (U[0].product(Q[0]), [p.product(q) for p in U[1] for q in Q[1]])
    E = (empty(d2), [])
    return M, [P, U, T, R, C, C2, X, X2, E], [Q, QU], d2


CONTAINER_CLAUSES = ('get-len-iter-agree-with-the-construction', 'take-item-k-is-item-indices[k]', 'compress-selects-in-order', 'repeat-is-the-repeated-list',
                     'product-is-the-row-major-product', 'chain-is-the-concatenation', 'getitem-forms-agree-with-the-list')


def containers(modname, cls):
    M, pool, partners, d2 = _pool(modname)
    cases, failures = 0, []

    def items(seq):
        return [seq.get(i) for i in range(len(seq))]

    def check(clause, desc, f, want):
        nonlocal cases
        cases += 1
        try:
            r = f()
            got = items(r)
            if not _same_list(got, want) or not _same_list(list(r), want) or len(r) != len(want):
                failures.append(dict(clause=clause, case=desc, got=repr(got)[:160], want=repr(want)[:160]))
        except Exception as e:
            failures.append(dict(clause=clause, case=desc, error='%s: %s' % (type(e).__name__, e)))
    mine = [(s, w) for s, w in pool if type(s).__name__ == cls]
    for iseq, (seq, want) in enumerate(mine):
        n = len(want)
        tag = '%s.%s#%d' % (modname, cls, iseq)
        cases += 1
        try:
            ok = len(seq) == n and _same_list(items(seq), want) and _same_list(list(seq), want) and all(_same_item(seq.get(i - n), want[i]) for i in range(n)) and bool(seq) == bool(n)
            for bad in (n, -n - 1):
                try:
                    seq.get(bad)
                    ok = False
                except IndexError:
                    pass
        except Exception as e:
            ok = False
        if not ok:
            failures.append(dict(clause='get-len-iter-agree-with-the-construction', case=tag))
            continue
        for k in range(0, 4):
            for idx in itertools.product(range(n), repeat=k):
                check('take-item-k-is-item-indices[k]', '%s.take(%r)' % (tag, list(idx)), lambda: seq.take(numpy.array(idx, dtype=int)), [want[i] for i in idx])
        for mask in itertools.product([False, True], repeat=n):
            check('compress-selects-in-order', '%s.compress(%r)' % (tag, [int(m) for m in mask]), lambda: seq.compress(numpy.array(mask, dtype=bool)), [w for w, m in zip(want, mask) if m])
        for count in range(0, 4):
            check('repeat-is-the-repeated-list', '%s.repeat(%d)' % (tag, count), lambda: seq.repeat(count), want * count)
            check('repeat-is-the-repeated-list', '%s.repeat(2).repeat(%d)' % (tag, count), lambda: seq.repeat(2).repeat(count), want * 2 * count)
        for ip, (other, wo) in enumerate(partners):
            check('product-is-the-row-major-product', '%s.product(partner%d)' % (tag, ip), lambda: seq.product(other), [p.product(q) for p in want for q in wo])
            check('product-is-the-row-major-product', 'partner%d.product(%s)' % (ip, tag), lambda: other.product(seq), [q.product(p) for q in wo for p in want])
            check('product-is-the-row-major-product', '%s.product(partner%d).product(partner0)' % (tag, ip), lambda: seq.product(other).product(partners[0][0]),
                  [p.product(q).product(r) for p in want for q in wo for r in partners[0][1]])
        for io, (other, wo) in enumerate(pool):
            if other.ndims != seq.ndims:
                continue
            check('chain-is-the-concatenation', '%s.chain(pool%d)' % (tag, io), lambda: seq.chain(other), want + wo)
            check('chain-is-the-concatenation', 'pool%d.chain(%s)' % (io, tag), lambda: other.chain(seq), wo + want)
        bounds = [None] + list(range(-n - 1, n + 2))
        for start in bounds:
            for stop in bounds:
                for step in (None, 1, 2, -1):
                    s = slice(start, stop, step)
                    check('getitem-forms-agree-with-the-list', '%s[%r]' % (tag, s), lambda: seq[s], want[s])
        cases += 1
        try:
            if not all(_same_item(seq[i], want[i]) for i in range(-n, n)):
                failures.append(dict(clause='getitem-forms-agree-with-the-list', case='%s[int]' % tag))
        except Exception as e:
            failures.append(dict(clause='getitem-forms-agree-with-the-list', case='%s[int]' % tag, error=type(e).__name__))
    _finish(cases, failures, 'a %s.%s container operation does not deliver the documented items' % (modname, cls))


def base_array_forms():
    """replay helper of the unbounded contract on the integer-array branch of Transforms.__getitem__ (contracts/c11_basearr.py): the bounded enumeration
    over the classes that defer to the base class, which includes every full-length permutation of sequences of up to 6 elements"""
    getitem_forms('Transforms')
