"""Native replays for C17."""
import io, itertools


def file_collision():
    from nutils import types
    seen = {}
    for content in (b'X', b'0X', b'1X', b'00X', b'10', b'0'):
        for pos in (0, 1, 2, 10, 11, 100):
            f = io.BytesIO(content)
            f.seek(pos)
            h = types.nutils_hash(f)
            key = (pos, content)
            if h in seen and seen[h] != key:
                (p2, c2) = seen[h]
                print('BytesIO(%r) at position %d and BytesIO(%r) at position %d have the same nutils hash %s but read %r / %r' % (c2, p2, content, pos, h.hex()[:12], c2[p2:], content[pos:]))
                print('REPLAY: VIOLATION-CONFIRMED two file objects that behave differently share a hash')
                return
            seen[h] = key
    print('REPLAY: not reproduced')


def order_independence():
    """hash containers built in different insertion orders / under different hash seeds"""
    import subprocess, sys, os
    from nutils import types
    items = [('a', 1), ('b', 2), ('c', 3), ('dd', 4)]
    for build in (lambda it: types.frozendict(it), lambda it: dict(it), lambda it: frozenset(k for k, v in it), lambda it: types.frozenmultiset([k for k, v in it])):
        hs = set()
        for perm in itertools.permutations(items):
            hs.add(types.nutils_hash(build(list(perm))))
        if len(hs) != 1:
            print('%s built from the same items in different orders has %d different hashes' % (type(build(items)).__name__, len(hs)))
            print('REPLAY: VIOLATION-CONFIRMED the hash depends on iteration order')
            return
    code = "from nutils import types; print(types.nutils_hash(frozenset(['a','b','c','dd','eee'])).hex(), types.nutils_hash({'a','b','c','dd'}).hex())"
    outs = set()
    for seed in ('1', '2', '3'):
        env = dict(os.environ, PYTHONHASHSEED=seed)
        outs.add(subprocess.run([sys.executable, '-c', code], capture_output=True, text=True, env=env, cwd='/').stdout.strip())
    if len(outs) != 1:
        print('set hashes differ between hash seeds:', outs)
        print('REPLAY: VIOLATION-CONFIRMED the hash depends on the hash seed')
        return
    print('REPLAY: not reproduced')


def ndarray_layout():
    import numpy
    from nutils import types
    A = numpy.array([[1, 2], [3, 4]])
    for X in (A, numpy.arange(6.).reshape(2, 3)):
        variants = [X, numpy.ascontiguousarray(X), numpy.asfortranarray(X), X.T.copy().T]
        hs = set(types.nutils_hash(v) for v in variants)
        if len(hs) != 1:
            print('equal arrays stored in C / Fortran order have %d different hashes' % len(hs))
            print('REPLAY: VIOLATION-CONFIRMED the hash of an array depends on its memory layout')
            return
        if X.shape[0] == X.shape[1] and types.nutils_hash(X) == types.nutils_hash(X.T) and not (X == X.T).all():
            print('A and A.T differ but share a hash')
            print('REPLAY: VIOLATION-CONFIRMED different arrays share a hash')
            return
    print('REPLAY: not reproduced')


def generic_normalisation():
    """numpy scalars hash like the equal Python scalars"""
    import numpy
    from nutils import types
    pairs = [(numpy.bool_(True), True), (numpy.bool_(False), False), (numpy.int8(-3), -3), (numpy.int64(7), 7), (numpy.int32(0), 0),
             (numpy.float32(1.5), 1.5), (numpy.float64(-0.25), -0.25), (numpy.complex64(1 + 2j), 1 + 2j), (numpy.complex128(3j), 3j)]
    for np_value, py_value in pairs:
        try:
            h = types.nutils_hash(np_value)
        except Exception as e:
            print('nutils_hash(%s(%r)) raises %s: %s' % (type(np_value).__name__, np_value, type(e).__name__, e))
            print('REPLAY: VIOLATION-CONFIRMED a numpy scalar of a supported kind cannot be hashed')
            return
        if h != types.nutils_hash(py_value):
            print('nutils_hash(%s(%r)) != nutils_hash(%r)' % (type(np_value).__name__, np_value, py_value))
            print('REPLAY: VIOLATION-CONFIRMED a numpy scalar does not hash like the equal Python scalar')
            return
    print('REPLAY: not reproduced')


def unsigned_generic():
    """candidate defect: unsigned numpy scalars"""
    import numpy
    from nutils import types
    try:
        ok = types.nutils_hash(numpy.uint8(3)) == types.nutils_hash(3)
    except Exception as e:
        print('nutils_hash(numpy.uint8(3)) raises %s: %s' % (type(e).__name__, e))
        print('REPLAY: VIOLATION-CONFIRMED an unsigned numpy scalar cannot be hashed (arraydata accepts kind u)')
        return
    print('REPLAY: not reproduced' if ok else 'REPLAY: VIOLATION-CONFIRMED uint8(3) does not hash like 3')


def _collide(table, what):
    seen = {}
    for key, h in table:
        if h in seen and seen[h] != key:
            print('%s: %r and %r share the nutils hash %s' % (what, seen[h], key, h.hex()[:12]))
            print('REPLAY: VIOLATION-CONFIRMED two values that behave differently share a hash')
            return True
        seen[h] = key
    return False


def method_branch():
    from nutils import types

    class A(types.Immutable):
        def __init__(self, x):
            self.x = x

        def f(self):
            return self.x

        def g(self):
            return -self.x

        def fg(self):
            return 0
    table = [((x, name), types.nutils_hash(getattr(A(x), name))) for x in (1, 2, 'f') for name in ('f', 'g', 'fg')]
    if _collide(table, 'bound methods (instance argument, method name)'):
        return
    if types.nutils_hash(A(1).f) != types.nutils_hash(A(1).f):
        print('REPLAY: VIOLATION-CONFIRMED the hash of a bound method is not stable')
        return
    print('REPLAY: not reproduced')


def dataclass_branch():
    import dataclasses
    from nutils import types

    @dataclasses.dataclass(frozen=True)
    class P:
        a: int
        b: int
        c: str = 'x'
    vals = [P(1, 2), P(2, 1), P(1, 1), P(2, 2), P(1, 2, 'y'), P(1, 2, 'a'), P('x', 2, 1), P(1, 'x', 2)]
    table = [((v.a, v.b, v.c), types.nutils_hash(v)) for v in vals]
    if _collide(table, 'dataclass instances (a, b, c)'):
        return
    if types.nutils_hash(P(1, 2)) != types.nutils_hash(P(b=2, a=1)):
        print('REPLAY: VIOLATION-CONFIRMED equal dataclass instances hash differently')
        return
    print('REPLAY: not reproduced')


def multiset():
    from nutils import types
    base = ['a', 'b', 'c']
    table = []
    for ca in range(1, 4):
        for cb in range(1, 4):
            ms = types.frozenmultiset(['a'] * ca + ['b'] * cb + ['c'])
            table.append(((ca, cb, 1), types.nutils_hash(ms)))
    table.append(((1, 0, 1), types.nutils_hash(types.frozenmultiset(['a', 'c']))))
    table.append(((12, 1, 1), types.nutils_hash(types.frozenmultiset(['a'] * 12 + ['b', 'c']))))
    table.append(((1, 12, 1), types.nutils_hash(types.frozenmultiset(['b'] * 12 + ['a', 'c']))))
    if _collide(table, 'frozenmultisets with multiplicities of (a, b, c)'):
        return
    order_independence()
