"""Native replays for C17."""
import io, itertools


def file_collision():
    from nutils import types
    seen = {}
    for content in (b'X', b'0X', b'1X', b'00X', b'10', b'0'):
        for pos in (0, 1, 2, 10, 11, 100):
            f = io.BytesIO(content)
            f.seek(pos)
            h = types.nutils_hash(f)
            key = (pos, content)
            if h in seen and seen[h] != key:
                (p2, c2) = seen[h]
                print('BytesIO(%r) at position %d and BytesIO(%r) at position %d have the same nutils hash %s but read %r / %r' % (c2, p2, content, pos, h.hex()[:12], c2[p2:], content[pos:]))
                print('REPLAY: VIOLATION-CONFIRMED two file objects that behave differently share a hash')
                return
            seen[h] = key
    print('REPLAY: not reproduced')


def order_independence():
    """hash containers built in different insertion orders / under different hash seeds"""
    import subprocess, sys, os
    from nutils import types
    items = [('a', 1), ('b', 2), ('c', 3), ('dd', 4)]
    for build in (lambda it: types.frozendict(it), lambda it: dict(it), lambda it: frozenset(k for k, v in it), lambda it: types.frozenmultiset([k for k, v in it])):
        hs = set()
        for perm in itertools.permutations(items):
            hs.add(types.nutils_hash(build(list(perm))))
        if len(hs) != 1:
            print('%s built from the same items in different orders has %d different hashes' % (type(build(items)).__name__, len(hs)))
            print('REPLAY: VIOLATION-CONFIRMED the hash depends on iteration order')
            return
    code = "from nutils import types; print(types.nutils_hash(frozenset(['a','b','c','dd','eee'])).hex(), types.nutils_hash({'a','b','c','dd'}).hex())"
    outs = set()
    for seed in ('1', '2', '3'):
        env = dict(os.environ, PYTHONHASHSEED=seed)
        outs.add(subprocess.run([sys.executable, '-c', code], capture_output=True, text=True, env=env, cwd='/').stdout.strip())
    if len(outs) != 1:
        print('set hashes differ between hash seeds:', outs)
        print('REPLAY: VIOLATION-CONFIRMED the hash depends on the hash seed')
        return
    print('REPLAY: not reproduced')


def ndarray_layout():
    import numpy
    from nutils import types
    A = numpy.array([[1, 2], [3, 4]])
    for X in (A, numpy.arange(6.).reshape(2, 3)):
        variants = [X, numpy.ascontiguousarray(X), numpy.asfortranarray(X), X.T.copy().T]
        hs = set(types.nutils_hash(v) for v in variants)
        if len(hs) != 1:
            print('equal arrays stored in C / Fortran order have %d different hashes' % len(hs))
            print('REPLAY: VIOLATION-CONFIRMED the hash of an array depends on its memory layout')
            return
        if X.shape[0] == X.shape[1] and types.nutils_hash(X) == types.nutils_hash(X.T) and not (X == X.T).all():
            print('A and A.T differ but share a hash')
            print('REPLAY: VIOLATION-CONFIRMED different arrays share a hash')
            return
    print('REPLAY: not reproduced')
