"""Native replays for the C16 process contracts (contracts/c16_fork.py): the real nutils.parallel with real forks.
Each run_* evaluates the contract's clauses on a few concrete situations and prints REPLAY: VIOLATION-CONFIRMED if the
real code misbehaves in one of them."""
import os, signal, sys, time, io, contextlib


class BlockError(Exception):
    pass


def _alive(pid):
    try:
        p, st = os.waitpid(pid, os.WNOHANG)
        return p == 0
    except ChildProcessError:
        return False


def _finish(bad, what):
    if bad:
        print('REPLAY: VIOLATION-CONFIRMED %s: %s' % (what, '; '.join(bad)))
    else:
        print('REPLAY: not reproduced')


def _quiet():
    return contextlib.redirect_stdout(io.StringIO())


def run_wait(clause):
    from nutils import parallel
    print('clause:', clause)
    bad = []
    for what, action, want in (('exit 0', lambda: os._exit(0), True), ('exit 3', lambda: os._exit(3), False),
                               ('SIGKILL', lambda: os.kill(os.getpid(), signal.SIGKILL), False), ('SIGTERM', lambda: os.kill(os.getpid(), signal.SIGTERM), False)):
        pid = os.fork()
        if not pid:
            try:
                action()
                time.sleep(5)
            finally:
                os._exit(7)
        try:
            with _quiet():
                got = parallel._wait(pid)
        except BaseException as e:
            got = e
        print('child %s -> _wait returns %r' % (what, got))
        if got is not want:
            bad.append('child ending with %s: _wait gave %r, expected %r' % (what, got, want))
    _finish(bad, 'parallel._wait')


def _fork_run(nprocs, block, after=None):
    """run `with parallel.fork(nprocs) as procid: block(procid, shared)`; returns (exception or None, shared array)"""
    from nutils import parallel
    with parallel.maxprocs(nprocs):
        shared = parallel.shzeros(16, dtype=int)
        exc = None
        try:
            with parallel.fork(nprocs) as procid:
                shared[4 + procid] = os.getpid()
                block(procid, shared)
            shared[0] += 1  # only the parent may get here (children end inside the context manager)
        except BaseException as e:
            exc = e
    return exc, shared


def run_fork(role, block, clause):
    from nutils import parallel
    print('clause:', clause)
    bad = []
    with _quiet():
        # clean block in every process
        exc, sh = _fork_run(3, lambda procid, sh: None)
    if exc is not None:
        bad.append('clean blocks: raised %r' % (exc,))
    time.sleep(0.2)
    if sh[0] != 1:
        bad.append('%d processes continued after the with-block (only the parent may)' % sh[0])
    if not all(sh[4:7]):
        bad.append('not every procid 0..2 ran the block: pids %r' % (sh[4:7].tolist(),))

    def child_fails(procid, sh):
        if procid == 1:
            raise BlockError('in child 1')
    with _quiet():
        exc, sh = _fork_run(3, child_fails)
    if exc is None:
        bad.append('a child raised in the block but the parent returned normally')

    def child_killed(procid, sh):
        if procid == 2:
            os.kill(os.getpid(), signal.SIGKILL)
            time.sleep(5)
    with _quiet():
        exc, sh = _fork_run(3, child_killed)
    if exc is None:
        bad.append('a child was killed but the parent returned normally')

    def parent_fails(procid, sh):
        if procid == 0:
            t0 = time.time()
            while not all(sh[5:7]) and time.time() - t0 < 10:
                time.sleep(0.01)
            raise BlockError('in the parent')
        time.sleep(20)
    with _quiet():
        exc, sh = _fork_run(3, parent_fails)
    if not isinstance(exc, BlockError):
        bad.append('the parent block raised BlockError, the context raised %r' % (exc,))
    time.sleep(0.3)
    left = [int(p) for p in sh[5:7] if p and _alive(int(p))]
    for p in left:
        os.kill(p, signal.SIGKILL)
    if left:
        bad.append('children %r still running after the parent block raised' % left)

    def nested(procid, sh):
        with parallel.fork(2) as inner:
            sh[8 + procid] = 1 + inner
        sh[12 + procid] = parallel.maxprocs.current
    with _quiet():
        exc, sh = _fork_run(3, nested)
    if exc is not None or sh[8:11].tolist() != [1, 1, 1] or sh[12:15].tolist() != [1, 1, 1]:
        bad.append('nested fork inside the block is not a no-op: exc %r inner procids+1 %r maxprocs %r' % (exc, sh[8:11].tolist(), sh[12:15].tolist()))
    _finish(bad, 'parallel._fork')


def run_fork_cap(clause):
    from nutils import parallel
    print('clause:', clause)
    bad = []
    for maxp, n, want in ((2, 5, 2), (3, 2, 2), (3, None, 3), (1, 4, 1), (4, 1, 1)):
        with parallel.maxprocs(maxp):
            sh = parallel.shzeros(8, dtype=int)
            cm = parallel.fork(n) if n is not None else parallel.fork()
            noop = isinstance(cm, parallel._DontFork)
            with _quiet():
                with cm as procid:
                    sh[procid] = 1
        got = int(sh.sum())
        print('maxprocs %d fork(%r): %d processes, no-op %s' % (maxp, n, got, noop))
        if got != want or noop != (want == 1):
            bad.append('maxprocs=%d fork(%r) ran %d processes (no-op: %s), expected %d' % (maxp, n, got, noop, want))
    try:
        with parallel.maxprocs(0):
            bad.append('maxprocs(0) accepted')
    except ValueError:
        pass
    _finish(bad, 'parallel.fork')


def run_shared(clause):
    import numpy
    from nutils import parallel
    print('clause:', clause)
    bad = []
    with parallel.maxprocs(2):
        for shape, dtype in (((2, 3), int), (5, float), ((4,), numpy.int32), ((0, 3), float), ((2, 2), complex)):
            for f in (parallel.shempty, parallel.shzeros):
                a = f(shape, dtype=dtype) if f is parallel.shzeros else f(shape, dtype)
                want = shape if isinstance(shape, tuple) else (shape,)
                if a.shape != want or a.dtype != numpy.dtype(dtype):
                    bad.append('%s(%r, %r) has shape %r dtype %r' % (f.__name__, shape, dtype, a.shape, a.dtype))
                if f is parallel.shzeros and a.size and (a != 0).any():
                    bad.append('shzeros(%r) is not zero' % (shape,))
                if a.size:
                    a.fill(0)
                    with _quiet():
                        with parallel.fork(2) as procid:
                            if procid == 1:
                                a.flat[a.size - 1] = 7
                    if a.flat[a.size - 1] != 7:
                        bad.append('%s(%r): a write of the child process is not visible to the parent (memory not shared)' % (f.__name__, shape))
    _finish(bad, 'parallel.shempty/shzeros')
