"""Native replays for contracts/C16b.py: the real nutils code generator (evaluable._BlockTreeBuilder/_BlockBuilder, _pyast) is run
on a concrete situation taken from the counter-model and the contract's clauses are evaluated on what it really produced.
Prints REPLAY: VIOLATION-CONFIRMED if the real code misbehaves."""
import collections, itertools, sys


def _finish(bad, what):
    if bad:
        print('REPLAY: VIOLATION-CONFIRMED %s: %s' % (what, '; '.join(bad)))
    else:
        print('REPLAY: not reproduced')


def in_scope(s, K):
    return len(s) <= len(K) and tuple(s) <= tuple(K) and tuple(s[:-1]) == tuple(K[:len(s) - 1])


class _Fake:
    """stands for an evaluable: the builder only needs identity (and .shape/.ndim/.ast_dtype of the array)"""

    def __init__(self, name):
        self.name = name

    def __repr__(self):
        return self.name


class _Blocks(dict):
    """compile()'s `blocks`: block id -> _pyast.Block, created on demand here"""

    def __missing__(self, key):
        from nutils import _pyast
        assert isinstance(key, tuple) and all(isinstance(n, int) for n in key), key
        b = self[key] = _pyast.Block()
        return b


def _tree_builder(ids, parallel, cache):
    from nutils import evaluable, _pyast, _util as util
    other = _Fake('other')
    blocks = _Blocks()
    b = evaluable._BlockTreeBuilder(blocks, dict(ids), {}, {other: 3}, itertools.count(7), cache, False, parallel, collections.defaultdict(int), {}, {None: util.IDSet()})
    b._shared_arrays[_pyast.Variable('v3')] = _pyast.Variable('lock3')
    return b, blocks


def _where(blocks, prefix):
    """[(block id, line number in that block's text)] of the generated lines starting with `prefix`"""
    out = []
    for key, blk in blocks.items():
        for n, line in enumerate(blk.lines):
            if line.strip().startswith(prefix):
                out.append((key, n, line.strip()))
    return out


def alloc_case(B, shapes, parallel, verbose=False):
    """run the real new_empty_array_for_evaluable twice (a rank-0 array outside every loop first, then the array of the case) and
    evaluate the clauses of contracts/C16b.py:Alloc; returns the list of violated clauses"""
    from nutils import _pyast
    first = _Fake('first')
    first.shape, first.ndim, first.ast_dtype = (), 0, _pyast.Variable('float')
    sh = [_Fake('n%d' % i) for i in range(len(shapes))]
    arr = _Fake('array')
    arr.shape, arr.ndim, arr.ast_dtype = tuple(sh), len(sh), _pyast.Variable('float')
    ids = {arr: tuple(B), first: (0,)}
    cache = {}
    for i, (s, bid) in enumerate(zip(sh, shapes)):
        ids[s] = tuple(bid)
        cache[s] = _pyast.Variable('n%d' % i)
    b, blocks = _tree_builder(ids, parallel, cache)
    b.new_empty_array_for_evaluable(first)
    before = dict(b._shared_arrays)
    out, O = b.new_empty_array_for_evaluable(arr)
    bad = []
    allocs = _where(blocks, out.py_expr + ' = ')
    registered = out in b._shared_arrays
    outer = len(B) == 1
    if len(allocs) != 1:
        return ['allocated-exactly-once: %d allocation statements for %s' % (len(allocs), out.py_expr)]
    K, kline, text = allocs[0]
    if verbose:
        print('B=%r shapes=%r parallel=%r -> out_block_id %r, allocation in block %r: %s, registered: %s' % (B, shapes, parallel, O, K, text, registered))
    if not all(in_scope(s, K) for s in shapes):
        bad.append('allocated-exactly-once-where-every-shape-entry-is-in-scope: allocation in block %r, shape entries computed in %r' % (K, shapes))
    if not in_scope(K, O):
        bad.append('usable-only-after-the-allocation: allocated in %r, handed out for use from %r' % (K, O))
    if not (len(O) == len(B) and tuple(O[:-1]) == tuple(B[:-1]) and tuple(O) <= tuple(B)):
        bad.append('usable-only-inside-the-loop-where-the-array-lives: array lives in block %r, out_block_id %r' % (B, O))
    if parallel and outer and not (registered and len(K) == 1):
        bad.append('shared-when-parallel-and-outside-every-loop: not registered in _shared_arrays')
    if not outer and registered:
        bad.append('private-inside-a-loop: an array living in block %r (inside a loop) is registered as shared' % (B,))
    if not parallel and registered:
        bad.append('nothing-shared-in-a-serial-compile: registered although the compile is serial')
    if registered:
        lock = b._shared_arrays[out]
        mine = _where(blocks, lock.py_expr + ' = multiprocessing.Lock()')
        if lock in before.values() or lock in b._shared_arrays or lock == out:
            bad.append('shared-array-has-a-lock-of-its-own-created-before-every-loop: lock %s is also the lock of another array' % lock.py_expr)
        elif len(mine) != 1 or len(mine[0][0]) != 1 or not (mine[0][0] < K or (mine[0][0] == K and mine[0][1] < kline)):
            bad.append('shared-array-has-a-lock-of-its-own-created-before-every-loop: creation statements %r, allocation in %r' % (mine, K))
        if 'parallel.shempty(' not in text:
            bad.append('allocated-through-shempty-iff-shared: shared array allocated by %s' % text)
    else:
        if 'numpy.empty(' not in text:
            bad.append('allocated-through-shempty-iff-shared: private array allocated by %s' % text)
    if any(b._shared_arrays.get(k) != v for k, v in before.items()) or set(b._shared_arrays) - set(before) - {out}:
        bad.append('other-shared-arrays-untouched: %r -> %r' % (before, b._shared_arrays))
    return bad


def run_alloc(B, shapes, parallel, clause):
    print('clause:', clause)
    bad = alloc_case(B, shapes, parallel, verbose=True)
    if not bad:
        # the model did not map to a failing input (e.g. entries the solver left unconstrained): search the small family of the same structure
        lens = [len(s) for s in shapes]
        for par in (parallel, not parallel):
            for Bv in itertools.product(range(3), repeat=len(B)):
                for vals in itertools.product(*[list(itertools.product(range(3), repeat=n)) for n in lens]):
                    if all(in_scope(s, Bv) for s in vals):
                        bad = alloc_case(Bv, list(vals), par)
                        if bad:
                            alloc_case(Bv, list(vals), par, verbose=True)
                            print('found by searching the family of block ids with entries < 3 (guided by the structure of the refuted contract)')
                            break
                if bad:
                    break
            if bad:
                break
    _finish(bad, '_BlockTreeBuilder.new_empty_array_for_evaluable')


# ---- lock discipline of generated text ---------------------------------------------------------------------------------------

def text_discipline(lines, shared):
    """Parse generated Python text; every simple statement that mentions a shared name (other than as the bare target of an
    assignment) must be nested in `with <its lock>:`; an `if` test counts as a statement of its own; no lock is taken twice on the
    way down.  Returns (number of simple statements, list of problems)."""
    import ast
    src = '\n'.join(lines)
    tree = ast.parse(src)
    bad, count = [], [0]

    def names(node):
        return {n.id for n in ast.walk(node) if isinstance(n, ast.Name)}

    def check(what, used, held, node):
        for v in sorted(used):
            if v in shared and shared[v] not in held:
                bad.append('line %d `%s`: %s mentions shared %s without holding %s' % (node.lineno, src.split('\n')[node.lineno - 1].strip(), what, v, shared[v]))

    def visit(stmts, held):
        for st in stmts:
            if isinstance(st, ast.With):
                locks = [ast.unparse(i.context_expr) for i in st.items]
                for l in locks:
                    if l in held:
                        bad.append('line %d: lock %s taken while held' % (st.lineno, l))
                # a `with` on something that is not a lock (e.g. a context manager call) is a statement reading its item
                for i in st.items:
                    if not isinstance(i.context_expr, ast.Name):
                        check('with-item', names(i.context_expr), held, st)
                visit(st.body, held + tuple(locks))
            elif isinstance(st, ast.If):
                count[0] += 1
                check('if-test', names(st.test), held, st)
                visit(st.body, held)
                visit(st.orelse, held)
            elif isinstance(st, ast.For):
                check('for-iterable', names(st.iter), held, st)
                visit(st.body, held)
            else:
                count[0] += 1
                used = names(st)
                if isinstance(st, ast.Assign) and len(st.targets) == 1 and isinstance(st.targets[0], ast.Name):
                    used = names(st.value)
                check('statement', used, held, st)
    visit(tree.body, ())
    return count[0], bad


class _Parent:
    def __init__(self, shared):
        from nutils import _pyast
        self._shared_arrays = {_pyast.Variable(k): _pyast.Variable(v) for k, v in shared.items()}
        self._n = itertools.count(1)
        self.new_var = lambda: _pyast.Variable('tmp%d' % next(self._n))


def emit_case(method, subsets, shared={'a': 'lock_a', 'b': 'lock_b'}):
    from nutils import evaluable, _pyast
    block = _pyast.Block()
    bb = evaluable._BlockBuilder(_Parent(shared), block)
    operands = []
    for k, sub in enumerate(subsets):
        if tuple(sub) == ('TARGET',):
            operands.append(_pyast.Variable('a'))
        else:
            operands.append(_pyast.Variable('x%d' % k).get_item(_pyast.Tuple(tuple(_pyast.Variable(n) for n in sub))))  # x0[a, b]: valid as a value and as a target
    ret = getattr(bb, method)(*operands)
    if method == 'if_':
        ret.exec(_pyast.Variable('g').call())  # an empty if-body prints nothing
    lines = list(block.lines)
    n, bad = text_discipline(lines, shared)
    if n < 1:
        bad.append('no statement emitted')
    text = '\n'.join(lines)
    if method != 'eval':
        for k, sub in enumerate(subsets):
            if tuple(sub) != ('TARGET',) and 'x%d[' % k not in text:
                bad.append('operand %d does not occur in the emitted statement' % k)
    elif not (isinstance(ret, _pyast.Variable) and ret.name.startswith('tmp') and ('%s = x0[' % ret.name) in text):
        bad.append('eval did not bind the value to a new variable')
    return lines, bad


def run_emit(method, subsets, clause):
    print('clause:', clause)
    lines, bad = emit_case(method, subsets)
    print('_BlockBuilder.%s on operands over %r emits:' % (method, subsets))
    for l in lines:
        print('    ' + l)
    _finish(bad, '_BlockBuilder.' + method)


# ---- compile(): loop generation ------------------------------------------------------------------------------------------------

def _compiled_script(funcs, nprocs, stats=None):
    """the text evaluable.compile generates for `funcs` under maxprocs(nprocs) (printed by debug_flags.compile), and the values"""
    import io, contextlib
    from nutils import evaluable, parallel, debug_flags
    old = debug_flags.compile
    debug_flags.compile = True
    buf = io.StringIO()
    try:
        with parallel.maxprocs(nprocs):
            with contextlib.redirect_stdout(buf):
                c = evaluable.compile(funcs, stats=stats)
            with contextlib.redirect_stdout(io.StringIO()), contextlib.redirect_stderr(io.StringIO()):
                vals = c({}) if not isinstance(c, tuple) else None
    finally:
        debug_flags.compile = old
    return buf.getvalue(), vals


def loops_of_script(script):
    """[(context kind, number of enclosing for-loops)] for every for-loop of the generated function; problems found on the way"""
    import ast
    tree = ast.parse(script)
    out, bad = [], []

    def kind(w):
        t = ast.unparse(w.items[0].context_expr)
        return 'ctxrange' if t.startswith('parallel.ctxrange(') else 'plain' if t.startswith('treelog.iter.percentage(') and 'range(' in t else 'other'

    def visit(stmts, depth, parent_with):
        for st in stmts:
            if isinstance(st, ast.With):
                k = kind(st)
                if k == 'ctxrange' and depth > 0:
                    bad.append('line %d: parallel.ctxrange inside %d enclosing loop(s): a nested fork' % (st.lineno, depth))
                visit(st.body, depth, st if k != 'other' else None)
            elif isinstance(st, ast.For):
                if parent_with is None:
                    bad.append('line %d: for-loop without a range context' % st.lineno)
                else:
                    out.append((kind(parent_with), depth))
                visit(st.body, depth + 1, None)
            elif isinstance(st, (ast.If, ast.FunctionDef)):
                visit(st.body, depth, None)
                visit(getattr(st, 'orelse', []), depth, None)
    visit(tree.body, 0, None)
    return out, bad


def run_loops(clause):
    import numpy
    from nutils import evaluable
    print('clause:', clause)
    i = evaluable.loop_index('i', evaluable.constant(3))
    j = evaluable.loop_index('j', evaluable.constant(4))
    k = evaluable.loop_index('k', evaluable.constant(2))
    l = evaluable.loop_index('l', evaluable.constant(2))
    inner = evaluable.loop_sum(evaluable.loop_sum(i * j + l, l) + 1, j)
    f = evaluable.loop_sum(inner * 2, i)
    g = evaluable.loop_sum(k * f, k)
    bad = []
    results = {}
    for nprocs, stats in ((1, None), (3, None), (3, 'log')):
        try:
            script, vals = _compiled_script((f, g), nprocs, stats)
        except Exception as e:
            bad.append('maxprocs %d, stats %r: generating or running the compiled function failed: %r' % (nprocs, stats, e))
            continue
        loops, problems = loops_of_script(script)
        bad += ['maxprocs %d, stats %r: %s' % (nprocs, stats, p) for p in problems]
        want = 'ctxrange' if nprocs > 1 and not stats else 'plain'
        print('maxprocs %d stats %r: loops (context, depth): %r' % (nprocs, stats, loops))
        if len(loops) < 4:
            bad.append('maxprocs %d, stats %r: expected four generated loops, found %d' % (nprocs, stats, len(loops)))
        for kind, depth in loops:
            if depth == 0 and kind != want:
                bad.append('maxprocs %d, stats %r: outermost loop uses %s, expected %s' % (nprocs, stats, kind, want))
            if depth > 0 and kind != 'plain':
                bad.append('maxprocs %d, stats %r: nested loop at depth %d uses %s' % (nprocs, stats, depth, kind))
        results[nprocs, stats] = [numpy.asarray(v).tolist() for v in vals]
    if results and (len(set(map(repr, results.values()))) != 1 or list(results.values())[0] != [120, 120]):
        bad.append('parallel and serial evaluation differ: %r' % (results,))
    elif results:
        print('values (all configurations agree):', list(results.values())[0])
    _finish(bad, 'evaluable.compile loop generation')


# ---- _pyast printer ------------------------------------------------------------------------------------------------------------
# statement trees as plain data (shared by the contract and the replay):
#   ('block', [children]) ('assign', l, r) ('exec', e) ('assert', e) ('raise', e)
#   ('with', item, as_ or None, omit_if_body_is_empty, body) ('if', cond, body, else or None) ('for', var, iterable, body) ('comment', text, body)

PRINTER_KINDS = ('with', 'with-as', 'with-omit', 'if', 'if-else', 'for', 'comment', 'comment-multiline', 'block')


def _wrap(kind, body, n):
    """a container of the given kind around the block `body`; expression names are numbered from n"""
    e = lambda k: 'x%d_%d' % (n, k)
    if kind == 'with':
        return ('with', e(0), None, False, body)
    if kind == 'with-as':
        return ('with', e(0), e(1), False, body)
    if kind == 'with-omit':
        return ('with', e(0), e(1), True, body)
    if kind == 'if':
        return ('if', e(0), body, None)
    if kind == 'if-else':
        return ('if', e(0), body, ('block', [('exec', e(1)), ('assign', e(2), e(3))]))
    if kind == 'for':
        return ('for', e(0), e(1), body)
    if kind == 'comment':
        return ('comment', 'note %d' % n, body)
    if kind == 'comment-multiline':
        return ('comment', 'note %d\nsecond line' % n, body)
    if kind == 'block':
        return body
    raise ValueError(kind)


def printer_tree(name):
    """the bounded family: 'K1>K2' = K2 nested in K1 with statements before, between and after; plus the special trees"""
    if '>' in name:
        k1, k2 = name.split('>')
        inner = _wrap(k2, ('block', [('assign', 'a1', 'a2'), ('raise', 'a3')]), 2)
        mid = _wrap(k1, ('block', [('exec', 'b1'), inner, ('assert', 'b2')]), 1)
        return ('block', [('assign', 'c1', 'c2'), mid, ('exec', 'c3')])
    empty = ('block', [])
    special = {
        'with-empty': ('block', [('exec', 'c1'), ('with', 'w', None, False, empty), ('exec', 'c2')]),
        'with-as-empty': ('block', [('with', 'w', 'v', False, ('block', [empty]))]),
        'with-omit-empty': ('block', [('exec', 'c1'), ('with', 'w', 'v', True, empty), ('exec', 'c2')]),
        'if-empty-else': ('block', [('exec', 'c1'), ('if', 'c', empty, ('block', [('exec', 'd1'), ('exec', 'd2')])), ('exec', 'c2')]),
        'if-empty-both': ('block', [('exec', 'c1'), ('if', 'c', empty, None), ('exec', 'c2')]),
        'for-empty': ('block', [('exec', 'c1'), ('for', 'i', 'r', empty), ('exec', 'c2')]),
        'comment-one-statement': ('block', [('exec', 'c1'), ('comment', 'note', ('exec', 'd1')), ('exec', 'c2')]),
        'comment-one-block-statement': ('block', [('comment', 'note', ('block', [('assign', 'd1', 'd2')])), ('exec', 'c2')]),
        'comment-on-with': ('block', [('comment', 'note', ('with', 'w', None, False, ('block', [('exec', 'd1')]))), ('exec', 'c2')]),
        'comment-empty': ('block', [('exec', 'c1'), ('comment', 'note', empty), ('exec', 'c2')]),
        'with-holding-only-an-empty-if': ('block', [('with', 'w', None, False, ('block', [('if', 'c', empty, None)])), ('exec', 'c2')]),
        'with-omit-holding-only-an-empty-for': ('block', [('exec', 'c1'), ('with', 'w', 'v', True, ('block', [('for', 'i', 'r', empty)])), ('exec', 'c2')]),
        'lock-pattern': ('block', [('with', 'lock_a', None, False, ('block', [('with', 'lock_b', None, False, ('block', [('exec', 'd1')]))])), ('if', 'c', ('block', [('with', 'lock_a', None, False, ('block', [('exec', 'd2')]))]), None), ('exec', 'c2')]),
    }
    return special[name]


PRINTER_SPECIAL = ('with-empty', 'with-as-empty', 'with-omit-empty', 'if-empty-else', 'if-empty-both', 'for-empty', 'comment-one-statement', 'comment-one-block-statement',
                   'comment-on-with', 'comment-empty', 'with-holding-only-an-empty-if', 'with-omit-holding-only-an-empty-for', 'lock-pattern')


def printer_names():
    return ['%s>%s' % (a, b) for a in PRINTER_KINDS for b in PRINTER_KINDS] + list(PRINTER_SPECIAL)


def shape_of_tree(t):
    """the statement tree a reader must see: containers that the docstrings of _pyast declare to print nothing (if/for with nothing
    in them, with + omit_if_body_is_empty) are gone, comments are gone, an empty suite is []"""
    k = t[0]
    if k == 'block':
        return [s for c in t[1] for s in shape_of_tree(c)]
    if k in ('assign',):
        return [('assign', t[1], t[2])]
    if k in ('exec', 'assert', 'raise'):
        return [(k, t[1])]
    if k == 'with':
        b = shape_of_tree(t[4])
        return [] if (t[3] and not b) else [('with', t[1], t[2], b)]
    if k == 'if':
        b, e = shape_of_tree(t[2]), shape_of_tree(t[3]) if t[3] is not None else []
        return [('if', t[1], b, e)] if (b or e) else []
    if k == 'for':
        b = shape_of_tree(t[3])
        return [('for', t[1], t[2], b)] if b else []
    if k == 'comment':
        return shape_of_tree(t[2])
    raise ValueError(k)


def comments_of_tree(t):
    k = t[0]
    if k == 'block':
        return [c for x in t[1] for c in comments_of_tree(x)]
    if k == 'with':
        return comments_of_tree(t[4]) if not (t[3] and not shape_of_tree(t[4])) else []
    if k == 'if':
        return (comments_of_tree(t[2]) + (comments_of_tree(t[3]) if t[3] is not None else [])) if shape_of_tree(t) else []
    if k == 'for':
        return comments_of_tree(t[3]) if shape_of_tree(t) else []
    if k == 'comment':
        return (t[1].split('\n') if shape_of_tree(t[2]) else []) + comments_of_tree(t[2])
    return []


def shape_of_text(text):
    """what CPython's parser reads (pass statements dropped)"""
    import ast
    tree = ast.parse(text)

    def name(e):
        return None if e is None else ast.unparse(e)

    def suite(stmts):
        out = []
        for st in stmts:
            if isinstance(st, ast.Pass):
                continue
            elif isinstance(st, ast.Assign) and len(st.targets) == 1:
                out.append(('assign', name(st.targets[0]), name(st.value)))
            elif isinstance(st, ast.Expr):
                out.append(('exec', name(st.value)))
            elif isinstance(st, ast.Assert) and st.msg is None:
                out.append(('assert', name(st.test)))
            elif isinstance(st, ast.Raise) and st.cause is None:
                out.append(('raise', name(st.exc)))
            elif isinstance(st, ast.With) and len(st.items) == 1:
                out.append(('with', name(st.items[0].context_expr), name(st.items[0].optional_vars), suite(st.body)))
            elif isinstance(st, ast.If):
                out.append(('if', name(st.test), suite(st.body), suite(st.orelse)))
            elif isinstance(st, ast.For) and not st.orelse:
                out.append(('for', name(st.target), name(st.iter), suite(st.body)))
            else:
                out.append(('unexpected', ast.dump(st)))
        return out
    return suite(tree.body)


def comments_of_text(text):
    import io, tokenize
    return [t.string[1:].strip() for t in tokenize.generate_tokens(io.StringIO(text + '\n').readline) if t.type == tokenize.COMMENT]


def printer_verdict(tree, lines):
    """[(clause, ok, detail)] for the printed lines of `tree`"""
    out = []
    one = all(isinstance(l, str) and '\n' not in l for l in lines)
    out.append(('every-yielded-line-is-one-line', one, ''))
    text = '\n'.join(lines)
    try:
        got = shape_of_text(text)
        err = ''
    except SyntaxError as e:
        got, err = None, repr(e)
    out.append(('printed-text-is-valid-python', got is not None, err))
    want = shape_of_tree(tree)
    out.append(('cpython-reads-the-text-back-as-the-same-statement-tree', got == want, 'read back %r, tree %r' % (got, want)))
    try:
        cs = comments_of_text(text) if got is not None else None
    except Exception as e:
        cs = None
    wantc = [c.strip() for c in comments_of_tree(tree)]
    out.append(('comments-stay-comments', cs is not None and sorted(cs) == sorted(wantc), 'comments %r, expected %r' % (cs, wantc)))
    return out


def build_real(t):
    from nutils import _pyast
    V = _pyast.Variable
    k = t[0]
    if k == 'block':
        return _pyast.Block([build_real(c) for c in t[1]])
    if k == 'assign':
        return _pyast.Assign(V(t[1]), V(t[2]))
    if k == 'exec':
        return _pyast.Exec(V(t[1]))
    if k == 'assert':
        return _pyast.Assert(V(t[1]))
    if k == 'raise':
        return _pyast.Raise(V(t[1]))
    if k == 'with':
        return _pyast.With(V(t[1]), build_real(t[4]), V(t[2]) if t[2] else None, t[3])
    if k == 'if':
        return _pyast.If(V(t[1]), build_real(t[2]), build_real(t[3]) if t[3] is not None else None)
    if k == 'for':
        return _pyast.ForLoop(V(t[1]), V(t[2]), build_real(t[3]))
    if k == 'comment':
        return _pyast.CommentBlock(t[1], build_real(t[2]))
    raise ValueError(k)


def run_printer(name, clause):
    print('clause:', clause)
    bad = []
    for nm in [name] + [n for n in printer_names() if n != name]:
        tree = printer_tree(nm)
        try:
            lines = list(build_real(tree).lines)
        except Exception as e:
            bad.append('%s: printing raised %r' % (nm, e))
            continue
        fails = ['%s (%s)' % (c, d) for c, ok, d in printer_verdict(tree, lines) if not ok]
        if fails:
            print('tree %s prints as:' % nm)
            for l in lines:
                print('    | ' + l)
            bad.append('%s: %s' % (nm, '; '.join(fails)))
        if bad and nm != name:
            print('(found in the bounded family of trees, not the tree of the refuted obligation)')
        if bad:
            break
    _finish(bad[:1], '_pyast statement printer')


# ---- Topology._locate ------------------------------------------------------------------------------------------------------------

def locate_cases():
    """(description, problem or None) for the real Topology._locate on a triangle mesh, serial and with 3 processes"""
    import numpy, io, contextlib
    from nutils import mesh, parallel, topology
    domain, geom = mesh.unitsquare(3, 'triangle')
    inside = numpy.array([[.1, .2], [.5, .55], [.9, .3], [.3, .8], [.7, .75], [.25, .25]])
    outside = numpy.array([[1.5, .5]])
    mixed = numpy.concatenate([inside[:2], outside, inside[2:], outside + 1])
    out = []
    for nprocs in (1, 3):
        with parallel.maxprocs(nprocs), contextlib.redirect_stdout(io.StringIO()), contextlib.redirect_stderr(io.StringIO()):
            what = 'maxprocs %d: ' % nprocs
            try:
                smp = domain.locate(geom, inside, eps=1e-10)
                got = smp.eval(geom)
                ok = smp.npoints == len(inside) and numpy.allclose(got, inside, atol=1e-7)
                out.append((what + 'all points inside', None if ok else 'located sample evaluates to %r instead of the requested points' % (got.tolist(),)))
            except Exception as e:
                out.append((what + 'all points inside', 'raised %r' % (e,)))
            try:
                smp = domain.locate(geom, mixed, eps=1e-10)
                out.append((what + 'two points outside, skip_missing=False', 'returned a sample of %d points instead of raising' % smp.npoints))
            except Exception as e:
                out.append((what + 'two points outside, skip_missing=False', None if isinstance(e, (topology.LocateError, Exception)) else repr(e)))
            try:
                smp = domain.locate(geom, mixed, eps=1e-10, skip_missing=True)
                got = smp.eval(geom)
                ok = smp.npoints == len(inside) and numpy.allclose(got, inside, atol=1e-7)
                out.append((what + 'two points outside, skip_missing=True', None if ok else 'sample of %d points evaluating to %r, expected the %d inside points' % (smp.npoints, got.tolist(), len(inside))))
            except Exception as e:
                out.append((what + 'two points outside, skip_missing=True', 'raised %r' % (e,)))
    return out


def run_locate(clause):
    print('clause:', clause)
    bad = []
    for what, problem in locate_cases():
        print('%-60s %s' % (what, 'ok' if problem is None else problem))
        if problem is not None:
            bad.append('%s: %s' % (what, problem))
    _finish(bad, 'Topology._locate')
