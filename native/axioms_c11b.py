"""Cross-checks of the axioms / assumed lemmas of the C11 second-round contracts (c11_struct, c11_plain, c11_get) against real Python, numpy and nutils."""
import contextlib, io, itertools
import numpy


def run(check, rng):
    # L-RADIX: row-major digits <-> index is a bijection from the digit box onto range(prod n_k)
    for _ in range(40):
        ns = [int(rng.randint(1, 5)) for _ in range(int(rng.randint(1, 4)))]
        seen = []
        for ds in itertools.product(*[range(n) for n in ns]):
            i = 0
            for d, n in zip(ds, ns):
                i = i * n + d
            seen.append(i)
        check('L-RADIX', seen == list(range(int(numpy.prod(ns)))), ns)
    # L-DIVMOD (ground instances): divmod(q*n + r, n) == (q, r) for 0 <= r < n
    for _ in range(200):
        n = int(rng.randint(1, 9))
        q, r = int(rng.randint(-6, 7)), int(rng.randint(0, n))
        check('L-DIVMOD-ground', divmod(q * n + r, n) == (q, r), q, n, r)
        check('repeat-mod', (q * n + r) % n == r, q, n, r)
    # numpy.searchsorted on a sorted object array of tuples, 0-d object needle: number of entries <= x (right) / < x (left) in tuple order
    for _ in range(200):
        k = int(rng.randint(0, 6))
        tuples = sorted(set(tuple(int(v) for v in rng.randint(0, 3, size=int(rng.randint(1, 4)))) for _ in range(k)))
        arr = numpy.empty([len(tuples)], dtype=object)
        for i, t in enumerate(tuples):
            arr[i] = t
        x = tuple(int(v) for v in rng.randint(0, 3, size=int(rng.randint(1, 5))))
        needle = numpy.empty((), dtype=object)
        needle[()] = x
        check('searchsorted-object-right', int(numpy.searchsorted(arr, needle, side='right')) == sum(1 for t in tuples if t <= x), tuples, x)
        check('searchsorted-object-left', int(numpy.searchsorted(arr, needle, side='left')) == sum(1 for t in tuples if t < x), tuples, x)
    # callee contract Axis.unmap(Axis.map(x)) == x on real axes (periodic axes fit in one period); A-NF-S / A-NF-P on real sequences with user tails
    try:
        from nutils import transformseq
    except ImportError:
        return
    for _ in range(100):
        i = int(rng.randint(-3, 6))
        n = int(rng.randint(1, 6))
        mod = int(rng.choice([0, n, n + int(rng.randint(0, 4))]))
        ax = transformseq.DimAxis(i, i + n, mod, False)
        check('axis-unmap-after-map', all(ax.unmap(ax.map(x)) == x for x in range(n)), i, n, mod)
    from native import c11
    with contextlib.redirect_stdout(io.StringIO()):
        ok1 = c11.structured_roundtrip([1, 0], 1, 2, budget=300)
        ok2 = c11.structured_roundtrip([0, 1, 1], 0, 2, budget=300)
        ok3 = c11.structured_roundtrip([1, 1], 2, 1, budget=300)
        ok4 = c11.plain_roundtrip()
    check('A-NF-S (structured lookups with user tails on real sequences)', ok1 and ok2 and ok3)
    check('A-NF-P (plain lookups with user tails on real sequences)', ok4)
