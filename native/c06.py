"""Replay of a C06 counter-model on the real evaluable nodes.

Children with an announced range (lo, hi) are built from real nodes:
Minimum(Maximum(Argument, lo), hi) announces exactly (lo, hi) and passes values inside through.
"""
import json, sys, numpy
from nutils import evaluable as ev, types
inf = float('inf')


def ext(m, name):
    t, v = int(m[name + '.t']), int(m[name + '.v'])
    return {0: v, 1: inf, 2: -inf}.get(t, float('nan'))


def child(name, lo, hi, shape=()):
    x = ev.Argument(name, tuple(shape), int)
    if lo != -inf:
        x = ev.Maximum(x, ev.appendaxes(ev.constant(int(lo)), x.shape))
    if hi != inf:
        x = ev.Minimum(x, ev.appendaxes(ev.constant(int(hi)), x.shape))
    assert x._intbounds == (lo, hi), (x._intbounds, lo, hi)
    return x


def split(S, k, lo, hi):
    """k integers in [lo, hi] with sum S (or None)."""
    if k == 0:
        return [] if S == 0 else None
    base = lo if lo != -inf else (hi if hi != inf else 0)
    base = min(base, S // k) if lo == -inf else base
    xs = [int(base)] * k
    rest = S - sum(xs)
    i = 0
    while rest != 0 and i < k:
        room = rest if hi == inf or rest < 0 else min(rest, hi - xs[i])
        if rest < 0:
            room = rest if lo == -inf else max(rest, lo - xs[i])
        xs[i] += int(room)
        rest -= int(room)
        i += 1
    if rest != 0 or any(not (lo <= x <= hi) for x in xs):
        return None
    return xs


def build(cls, m):
    """returns (node, arguments) or None"""
    def rng(n):
        return ext(m, n + '.lo'), ext(m, n + '.hi')

    def val(n):
        return int(m[n + '.val'])
    if cls in ('Negative', 'Absolute'):
        a = child('arg', *rng('arg'))
        return getattr(ev, cls)(a), dict(arg=numpy.array(val('arg')))
    if cls == 'Sign':
        a = child('func', *rng('func'))
        return ev.Sign(a), dict(func=numpy.array(val('func')))
    if cls in ('Minimum', 'Maximum'):
        a, b = child('x', *rng('x')), child('y', *rng('y'))
        return getattr(ev, cls)(a, b), dict(x=numpy.array(val('x')), y=numpy.array(val('y')))
    if cls in ('FloorDivide', 'Mod'):
        a, b = child('dividend', *rng('dividend')), child('divisor', *rng('divisor'))
        return getattr(ev, cls)(a, b), dict(dividend=numpy.array(val('dividend')), divisor=numpy.array(val('divisor')))
    if cls == 'Multiply':
        a, b = child('func1', *rng('func1')), child('func2', *rng('func2'))
        return ev.Multiply(types.frozenmultiset((a, b))), dict(func1=numpy.array(val('func1')), func2=numpy.array(val('func2')))
    if cls == 'Add':
        names = [k[:-4] for k in m if k.startswith('term') and k.endswith('.val')]
        cs = [child(n, *rng(n)) for n in sorted(names)]
        node = cs[0]
        for c in cs[1:]:
            node = ev.Add(types.frozenmultiset((node, c)))
        return node, {n: numpy.array(val(n)) for n in names}
    if cls == 'RavelIndex':
        ia, ib, nb = child('ia', *rng('ia')), child('ib', *rng('ib')), child('nb', *rng('nb'))
        na = ev.constant(max(val('ia') + 1, 1))
        return ev.RavelIndex(ia, ib, na, nb), dict(ia=numpy.array(val('ia')), ib=numpy.array(val('ib')), nb=numpy.array(val('nb')))
    if cls == 'InRange':
        i, n = child('index', *rng('index')), child('length', *rng('length'))
        return ev.InRange(i, n), dict(index=numpy.array(val('index')), length=numpy.array(val('length')))
    if cls == 'NormDim':
        n, i = child('length', *rng('length')), child('index', *rng('index'))
        return ev.NormDim(n, i), dict(index=numpy.array(val('index')), length=numpy.array(val('length')))
    if cls in ('Range', '_LoopIndex') and cls == 'Range':
        n = child('length', *rng('length'))
        return ev.Range(n), dict(length=numpy.array(val('length')))
    if cls == 'Sum':
        n = child('length', *rng('length'))
        f = child('func', *rng('func'), shape=(n,))
        xs = split(int(m['S']), val('length'), *rng('func'))
        if xs is None:
            return None
        return ev.Sum(f), dict(func=numpy.array(xs, dtype=int), length=numpy.array(val('length')))
    if cls == '_SizesToOffsets':
        n = child('length', *rng('length'))
        f = child('sizes', *rng('sizes'), shape=(n,))
        k = int(m['k'])
        xs = split(int(m['S']), k, *rng('sizes'))
        if xs is None:
            return None
        lo = rng('sizes')[0]
        xs = xs + [int(lo)] * (val('length') - k)
        return ev._SizesToOffsets(f), dict(sizes=numpy.array(xs, dtype=int), length=numpy.array(val('length')))
    if cls == 'Inflate':
        k = int(m['k'])
        f = child('func', *rng('func'), shape=(ev.constant(k),))
        xs = split(int(m['S']), k, *rng('func'))
        if xs is None:
            return None
        node = ev.Inflate(f, ev.constant(numpy.zeros(k, dtype=int)), ev.constant(1))
        return node, dict(func=numpy.array(xs, dtype=int))
    if cls == 'Einsum' and 'outlen.val' in m:
        n, mm = child('length', *rng('length')), child('outlen', *rng('outlen'))
        a = child('arg1', *rng('arg1'), shape=(mm, n))
        b = child('arg2', *rng('arg2'), shape=(n,))
        nv, mv = val('length'), val('outlen')
        node = ev.Einsum((a, b), ((0, 1), (1,)), (0,))
        # a constant product a*b per term reproduces any S = n * a.val * b.val; otherwise use the model's single term
        A = numpy.full((mv, nv), val('arg1'), dtype=int)
        B = numpy.full((nv,), val('arg2'), dtype=int)
        return node, dict(arg1=A, arg2=B, length=numpy.array(nv), outlen=numpy.array(mv))
    if cls == 'Einsum':
        n = child('length', *rng('length'))
        a = child('arg1', *rng('arg1'), shape=(n,))
        b = child('arg2', *rng('arg2'), shape=(n,))
        nv = val('length')
        return ev.Einsum((a, b), ((0,), (0,)), (0,)), dict(arg1=numpy.full((nv,), val('arg1')), arg2=numpy.full((nv,), val('arg2')), length=numpy.array(nv))
    return None


def run(cls, model, clause):
    try:
        r = build(cls, model)
    except AssertionError as e:
        print('REPLAY: could not build the children announced by the model:', e)
        return
    if r is None:
        print('REPLAY: no native builder for', cls, '(or the model has no integer witness)')
        return
    node, args = r
    try:
        bounds = node._intbounds
    except AssertionError as e:
        print('REPLAY: VIOLATION-CONFIRMED %s._intbounds raised AssertionError (the INV asserts of Array._intbounds) for children %s' % (cls, {k: v for k, v in model.items() if '.lo.' in k or '.hi.' in k}))
        return
    try:
        value = ev.eval_once(node, _simplify=False, _optimize=False, arguments=args)
    except Exception as e:
        print('REPLAY: evaluation raised %s: %s (node undefined for this input)' % (type(e).__name__, e))
        return
    value = numpy.asarray(value)
    lo, hi = bounds
    print('announced range', bounds, 'value', value.tolist(), 'arguments', {k: v.tolist() for k, v in args.items()})
    if value.size and (value.min() < lo or value.max() > hi):
        print('REPLAY: VIOLATION-CONFIRMED %s evaluates to %s outside its announced range %s' % (cls, value.tolist(), bounds))
    else:
        print('REPLAY: not reproduced (value inside the announced range)')
