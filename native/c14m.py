"""Native replays for the C14 solution methods: the REAL method objects (solver.Newton ... solver.Direct) run on real
nutils Systems (two unknowns); every yielded (arguments, resnorm) pair is checked against an independent recomputation of
the residual at the yielded arguments.  Line-search clauses are checked with recording strategies."""
import itertools, math, warnings
import numpy
nan, inf = float('nan'), float('inf')


def _systems(kind):
    from nutils import solver, function
    u = function.Argument('u', (2,))
    out = []
    if kind == 'linear':
        f = 2 * u[0]**2 + u[0] * u[1] + 1.5 * u[1]**2 - 3 * u[0] + u[1]
        out.append((solver.System(f, trial='u'), [numpy.array([0., 0.]), numpy.array([1., -2.])]))
    elif kind == 'symmetric':
        f = numpy.cosh(1) * 0 + u[0]**4 + u[0] * u[1] * .5 + u[1]**2 + (u[0] - 1)**2
        g = u[0]**4 - 3 * u[0]**2 + u[1]**2 + .5 * u[0] + u[0] * u[1]
        out.append((solver.System(f, trial='u'), [numpy.array([1., 1.]), numpy.array([-2., .5])]))
        out.append((solver.System(g, trial='u'), [numpy.array([.1, .2]), numpy.array([2., -1.]), numpy.array([-.3, 0.])]))
    else:
        f = u[0]**4 + u[0] * u[1] * .5 + u[1]**2 + (u[0] - 1)**2
        g = u[0]**4 - 3 * u[0]**2 + u[1]**2 + .5 * u[0] + u[0] * u[1]
        h = numpy.exp(u[0]) + u[0] * u[1] + u[1]**4 - 2 * u[1]
        out.append((solver.System(f, trial='u'), [numpy.array([1., 1.]), numpy.array([-2., .5])]))
        out.append((solver.System(g, trial='u'), [numpy.array([.1, .2]), numpy.array([2., -1.])]))
        out.append((solver.System(h, trial='u'), [numpy.array([0., 0.]), numpy.array([3., 2.])]))
    return out


def _resnorm(system, args):
    return float(numpy.linalg.norm(system.assemble_residual(args)))


def _same(a, b):
    if a != a or b != b:
        return (a != a) and (b != b)
    if math.isinf(a) or math.isinf(b):
        return a == b
    return abs(a - b) <= 1e-9 * max(1., abs(a), abs(b))


class Recorder:
    """A line-search strategy honouring the assumed contract (rejected => scale < 1) that records its calls."""

    def __init__(self, script):
        self.script, self.calls = list(script), []

    def __call__(self, res0, dres0, res1, dres1):
        scale, accept = self.script[min(len(self.calls), len(self.script) - 1)]
        self.calls.append((numpy.array(res0), numpy.array(res1), scale, accept))
        return scale, accept


def method(cls, clause, nyield=6):
    from nutils import solver, matrix
    warnings.simplefilter('ignore')
    if cls == 'Direct':
        configs = [dict()]
        systems = _systems('linear') + _systems('nonlinear')
    elif cls == 'Minimize':
        configs = [dict(), dict(rampup=1., rampdown=-.5, failrelax=-4.)]
        systems = _systems('symmetric')
    elif cls == 'LinesearchNewton':
        configs = [dict(), dict(strategy=solver.MedianBased()), dict(relax0=.5)]
        for script in ([(.5, False), (.5, False), (1., True)], [(.9, False)], [(.25, False), (2., True), (.99, False), (.5, True)], [(1., True)], [(.6, False), (.6, True)]):
            configs.append(dict(strategy=script, failrelax=.1))
        systems = _systems('nonlinear')
    elif cls == 'Pseudotime':
        systems = _systems('nonlinear')
        configs = None
    elif cls == 'ReuseNewton':
        configs = [dict(), dict(require=.9), dict(require=.01)]
        systems = _systems('nonlinear')
    else:
        configs = [dict()]
        systems = _systems('nonlinear')
    tried = 0
    for system, starts in systems:
        if cls == 'Pseudotime':
            from nutils import function
            u = function.Argument('u', (2,))
            inertia = (function.derivative(.5 * (u @ u), u).as_evaluable_array,)
            configs = [dict(inertia=inertia, timestep=1.), dict(inertia=inertia, timestep=.01)]
        for x0, kw in itertools.product(starts, configs):
            kw = dict(kw)
            rec = None
            if isinstance(kw.get('strategy'), list):
                rec = kw['strategy'] = Recorder(kw['strategy'])
            relax = kw.get('relax0', 1.)
            failrelax = kw.get('failrelax', 1e-6)
            what = '%s(%s) on a 2-dof system from u=%s' % (cls, ', '.join('%s=%r' % (k, v.script if isinstance(v, Recorder) else v) for k, v in kw.items() if k != 'inertia'), x0.tolist())
            try:
                m = getattr(solver, cls)(**kw)
                g = m(system, arguments={'u': x0.copy()}, constrain={})
                pairs = [g] if cls == 'Direct' else g
                prev_val, ncalls = None, 0
                for k, pair in zip(range(nyield), pairs):
                    tried += 1
                    if not (isinstance(pair, tuple) and len(pair) == 2 and isinstance(pair[0], dict) and 'u' in pair[0]):
                        print(what, '\nyield %d is %r' % (k, pair))
                        print('REPLAY: VIOLATION-CONFIRMED the method did not yield an (arguments, resnorm) pair')
                        return
                    args, resnorm = pair
                    indep = _resnorm(system, args)
                    if not _same(float(resnorm), indep):
                        print(what, '\nyield %d: arguments u=%s reported resnorm %r, independent recomputation of the residual norm at these arguments %r' % (k, args['u'].tolist(), float(resnorm), indep))
                        print('REPLAY: VIOLATION-CONFIRMED the yielded residual norm is not the residual norm of the yielded arguments')
                        return
                    if rec is not None and k > 0:
                        new = rec.calls[ncalls:]
                        for c in new[:-1]:
                            relax *= c[2]
                        last = new[-1] if new else None
                        res_at = system.assemble_residual(args)
                        if last is None or not last[3] or not numpy.allclose(last[1], res_at, rtol=1e-9, atol=1e-12):
                            print(what, '\nyield %d adopted u=%s; last strategy call before it: %r' % (k, args['u'].tolist(), last))
                            print('REPLAY: VIOLATION-CONFIRMED the line search was left without an accepted step (or with a residual that is not the one at the adopted iterate)')
                            return
                        relax = min(relax * last[2], 1)
                        ncalls = len(rec.calls)
                    if cls == 'Minimize':
                        val = float(system.assemble_value(args))
                        if k > 0 and not (math.isfinite(val) and numpy.isfinite(system.assemble_residual(args)).all() and val <= prev_val):
                            print(what, '\nyield %d adopted u=%s with energy %r after energy %r' % (k, args['u'].tolist(), val, prev_val))
                            print('REPLAY: VIOLATION-CONFIRMED the line search adopted an iterate with non-finite or increased energy')
                            return
                        prev_val = val
            except solver.SolverError as e:
                if rec is not None and 'stuck' in str(e):
                    for c in rec.calls[ncalls:]:
                        relax *= c[2]
                    rejected = rec.calls and not rec.calls[-1][3]
                    if not (relax <= failrelax and rejected):
                        print(what, '\nraised SolverError(%s) with relax=%r, failrelax=%r, last strategy verdict %r' % (e, relax, failrelax, rec.calls[-1][2:] if rec.calls else None))
                        print('REPLAY: VIOLATION-CONFIRMED SolverError although the relaxation is still above failrelax (or the last step was accepted)')
                        return
                continue
            except matrix.MatrixError:
                continue
            except ValueError as e:
                if cls == 'Direct' and 'not linear' in str(e):
                    continue
                print(what, '\nraised %s: %s' % (type(e).__name__, e))
                print('REPLAY: VIOLATION-CONFIRMED escaped with %s (neither a certificate nor a solver/matrix error)' % type(e).__name__)
                return
            except Exception as e:
                print(what, '\nraised %s: %s' % (type(e).__name__, e))
                print('REPLAY: VIOLATION-CONFIRMED escaped with %s (neither a certificate nor a solver/matrix error)' % type(e).__name__)
                return
    print('REPLAY: not reproduced on %d yields of the configurations tried' % tried)


def normbased(clause):
    """The real NormBased.__call__ on a family of FINITE one- and two-entry vectors (incl. very large / very small magnitudes)
    plus non-finite res1; every clause of the contract is evaluated on what comes back."""
    from nutils import solver
    warnings.simplefilter('ignore')
    nb = solver.NormBased()
    mags = [1., -1., 1e-200, -1e-200, 1e200, -1e200, 1e308, -1e308, 1e-90, 3., 0.]
    tried = 0
    for r0, d0, r1, d1 in itertools.product(mags, mags, mags + [nan, inf], mags):
        vecs = [numpy.array([v]) for v in (r0, d0, r1, d1)]
        tried += 1
        what = 'NormBased()(res0=%s, dres0=%s, res1=%s, dres1=%s)' % tuple(v.tolist() for v in vecs)
        try:
            scale, accept = nb(*vecs)
        except solver.SolverError:
            continue
        except Exception as e:
            if 'no-raise' in clause or 'raises' in clause:
                print(what, 'raised %s: %s' % (type(e).__name__, e))
                print('REPLAY: VIOLATION-CONFIRMED a finite input makes the strategy raise %s (not a SolverError)' % type(e).__name__)
                return
            continue
        scale, accept = float(scale), bool(accept)
        p0, p1 = float(vecs[0] @ vecs[0]), float(vecs[2] @ vecs[2])
        bad = None
        if not numpy.isfinite(vecs[2]).all() and (scale != nb.minscale or accept):
            bad = 'a non-finite residual was not answered with (minscale, False)'
        elif accept and not scale >= nb.acceptscale:
            bad = 'accepted with a scale below acceptscale'
        elif accept and not p1 < p0:
            bad = 'accepted although the residual norm did not decrease (|res1|^2 = %r, |res0|^2 = %r)' % (p1, p0)
        elif 'minscale-maxscale' in clause and not nb.minscale <= scale <= nb.maxscale:
            bad = 'the returned scale is outside [minscale, maxscale]'
        elif 'below-one' in clause and not accept and not scale < 1:
            bad = 'a rejected step comes with a scale that is not < 1 (LinesearchNewton asserts scale < 1)'
        if bad:
            print(what, '->', (scale, accept))
            print('REPLAY: VIOLATION-CONFIRMED', bad)
            return
    print('REPLAY: not reproduced on %d finite inputs' % tried)


def roundtrip(trials, clause, rounds=300):
    """The real System.deconstruct / System.construct (called on a stub carrying trials, trial_shapes, dtype and the trial slices)
    on random small inputs of the scenario; the clauses are recomputed with plain loops and counters."""
    import types
    from nutils import solver
    rng = numpy.random.RandomState(0)
    for _ in range(rounds):
        names = ['u%d' % k for k in range(len(trials))]
        ns = [int(rng.randint(0, 5)) for _ in trials]
        offs = numpy.cumsum([0] + ns)
        stub = types.SimpleNamespace(trials=tuple(names), trial_shapes=tuple((n,) for n in ns), dtype=float,
                                     _System__trial_slices=tuple(slice(int(a), int(b)) for a, b in zip(offs, offs[1:])))
        arguments, constrain, free, pres, guess = {'other': 'kept'}, {}, [], [], []
        for name, n, (has_a, ck) in zip(names, ns, trials):
            a = rng.randint(-9, 10, size=n).astype(float) if has_a else None
            if ck == 'none':
                F, p = numpy.ones(n, bool), numpy.full(n, nan)
            elif ck == 'bool':
                c = rng.randint(0, 2, size=n).astype(bool)
                constrain[name] = c
                F, p = ~c, (a.copy() if has_a else numpy.zeros(n))
            else:
                c = numpy.where(rng.randint(0, 2, size=n).astype(bool), rng.randint(20, 30, size=n).astype(float), nan)
                constrain[name] = c
                F, p = numpy.isnan(c), c.copy()
            if has_a:
                arguments[name] = a
            free.append(F), pres.append(p), guess.append(None if a is None else a.copy())
        what = 'deconstruct(arguments=%s, constrain=%s)' % ({k: (v.tolist() if hasattr(v, 'tolist') else v) for k, v in arguments.items()}, {k: v.tolist() for k, v in constrain.items()})
        # every third round: a non-finite value in a FREE entry of an initial guess must be rejected (AssertionError), not passed on
        cand = [(name, i) for name, n, F, g in zip(names, ns, free, guess) if g is not None for i in range(n) if F[i]]
        if _ % 3 == 0 and cand:
            name, i = cand[int(rng.randint(len(cand)))]
            poisoned = {k: (v.copy() if hasattr(v, 'copy') else v) for k, v in arguments.items()}
            poisoned[name][i] = [nan, inf, -inf][int(rng.randint(3))]
            try:
                _, xbad = solver.System.deconstruct(stub, poisoned, constrain)
            except AssertionError:
                pass
            else:
                print('deconstruct(arguments=%s, constrain=%s) returned x = %s' % ({k: (v.tolist() if hasattr(v, 'tolist') else v) for k, v in poisoned.items()}, {k: v.tolist() for k, v in constrain.items()}, xbad.tolist()))
                print('REPLAY: VIOLATION-CONFIRMED a non-finite free entry of the initial guess was not rejected')
                return
        try:
            args1, x = solver.System.deconstruct(stub, arguments, constrain)
            y = 100. + numpy.arange(len(x))
            args2 = solver.System.construct(stub, args1, y)
        except Exception as e:
            print(what, 'raised %s: %s' % (type(e).__name__, e))
            print('REPLAY: VIOLATION-CONFIRMED consistent input was rejected with %s' % type(e).__name__)
            return
        bad, k = None, 0
        if len(x) != sum(int(F.sum()) for F in free):
            bad = 'len(x) = %d is not the number of free entries' % len(x)
        if args2.get('other') != 'kept':
            bad = 'a non-trial argument was lost'
        for name, n, F, p, g in zip(names, ns, free, pres, guess):
            v = args2[name]
            if v.shape != (n,):
                bad = bad or 'shape of %s changed' % name
                break
            for i in range(n):
                if F[i]:
                    if not bad and k < len(x) and g is not None and x[k] != g[i]:
                        bad = 'x[%d] = %r is not the initial guess %s[%d] = %r' % (k, x[k], name, i, g[i])
                    if not bad and k < len(x) and g is None and x[k] != 0:
                        bad = 'x[%d] = %r is not zero (no initial guess)' % (k, x[k])
                    if not bad and v[i] != 100. + k:
                        bad = 'free entry %s[%d] = %r is not y[%d] = %r' % (name, i, v[i], k, 100. + k)
                    k += 1
                elif not bad and not (v[i] == p[i]):
                    bad = 'constrained entry %s[%d] = %r differs from its prescribed value %r' % (name, i, v[i], p[i])
        if bad:
            print(what, '-> x = %s; construct(., y=%s) = %s' % (x.tolist(), y.tolist(), {k_: (v_.tolist() if hasattr(v_, 'tolist') else v_) for k_, v_ in args2.items()}))
            print('REPLAY: VIOLATION-CONFIRMED', bad)
            return
    print('REPLAY: not reproduced on %d random inputs of the scenario' % rounds)


def _lenient_matrix(outcome):
    from nutils import matrix

    class Stub(matrix.Matrix):
        def __init__(self):
            super().__init__((2, 2), float)

        def solve(self, *args, **kwargs):
            if outcome == 'ok':
                return numpy.array([1., 2.])
            if outcome == 'tolerance':
                raise matrix.ToleranceNotReached(numpy.array([3., 4.]))
            raise matrix.MatrixError('singular matrix')

        def _submatrix(self, rows, cols):
            return ('built for', rows.copy(), cols.copy())
    return Stub()


def solve_leniently(clause):
    """The real Matrix.solve_leniently on a stub whose solve() returns, raises ToleranceNotReached(best) or raises MatrixError."""
    from nutils import matrix
    for outcome, want in (('ok', [1., 2.]), ('tolerance', [3., 4.]), ('error', None)):
        A = _lenient_matrix(outcome)
        try:
            got = A.solve_leniently(numpy.zeros(2), atol=1e-3)
        except matrix.ToleranceNotReached as e:
            print('solve() raised ToleranceNotReached; solve_leniently let it through')
            print('REPLAY: VIOLATION-CONFIRMED ToleranceNotReached is not swallowed')
            return
        except matrix.MatrixError:
            if want is None:
                continue
            print('REPLAY: VIOLATION-CONFIRMED MatrixError although solve() %s' % outcome)
            return
        except Exception as e:
            print('solve() outcome %r: solve_leniently raised %s: %s' % (outcome, type(e).__name__, e))
            print('REPLAY: VIOLATION-CONFIRMED escaped with %s (neither a result nor a MatrixError)' % type(e).__name__)
            return
        if want is None or not isinstance(got, numpy.ndarray) or got.tolist() != want or not numpy.isfinite(got).all():
            print('solve() outcome %r: solve_leniently returned %r, expected %r' % (outcome, got, want))
            print('REPLAY: VIOLATION-CONFIRMED the result is not the result of solve / the best of the swallowed ToleranceNotReached')
            return
    print('REPLAY: not reproduced')


def submatrix(clause):
    """The real Matrix.submatrix (cache guard) on a stub whose _submatrix records the masks it was built for; all sequences of
    three requests over masks of a 2 x 2 matrix."""
    masks = [numpy.array(m) for m in itertools.product([False, True], repeat=2)]
    reqs = list(itertools.product(masks, masks))
    for seq in itertools.product(reqs, repeat=3):
        if sum(1 for s in seq if s is not seq[0]) == 0:
            continue
        A = _lenient_matrix('ok')
        for rows, cols in seq:
            try:
                got = A.submatrix(rows, cols)
            except Exception as e:
                print('requests %s: submatrix(rows=%s, cols=%s) raised %s: %s' % ([(r.tolist(), c.tolist()) for r, c in seq], rows.tolist(), cols.tolist(), type(e).__name__, e))
                print('REPLAY: VIOLATION-CONFIRMED the cache guard raised %s (inconsistent cache state)' % type(e).__name__)
                return
            if got is A:
                ok = rows.all() and cols.all()
            else:
                ok = isinstance(got, tuple) and (got[1] == rows).all() and (got[2] == cols).all() and not (rows.all() and cols.all())
            if not ok:
                print('requests %s: submatrix(rows=%s, cols=%s) returned %r' % ([(r.tolist(), c.tolist()) for r, c in seq], rows.tolist(), cols.tolist(), got if got is not A else 'self'))
                print('REPLAY: VIOLATION-CONFIRMED the returned submatrix was not built for the requested rows and cols')
                return
    print('REPLAY: not reproduced')


def step(clause):
    """The real System.step on a stub system whose solve() fails on the listed attempts; checks that a (bisected) step ends at
    t + timestep, that solve is posed on sub-intervals of [t, t + timestep] and that only solver/matrix errors are retried."""
    from nutils import solver, matrix
    for failing, exc in itertools.product([(), (0,), (0, 1), (0, 2)], [solver.SolverError, matrix.MatrixError, ValueError]):
        calls = []

        class Stub:
            trials = ('u',)
            arguments = frozenset({'t', 'u'})

            def solve(self, *, arguments, **kw):
                calls.append((arguments.get('t0'), arguments['t']))
                if len(calls) - 1 in failing:
                    raise exc('attempt %d fails' % len(calls))
                return {**arguments, 'u': arguments['u'] + 1}
            step = solver.System.step
        what = 'System.step(arguments={t: 0, u: 10}, suffix=0, timearg=t, timestep=1, maxretry=2) with solve() raising %s on attempts %s' % (exc.__name__, list(failing))
        try:
            out = Stub().step(arguments={'t': 0., 'u': 10}, suffix='0', timearg='t', timestep=1., maxretry=2)
        except (solver.SolverError, matrix.MatrixError):
            continue
        except ValueError:
            if exc is ValueError and failing and len(calls) == 1:
                continue
            print(what, '\nsolve was called on (t0, t) =', calls)
            print('REPLAY: VIOLATION-CONFIRMED a ValueError of solve() was retried instead of propagated')
            return
        if exc is ValueError and failing:
            print(what, '\nsolve was called on (t0, t) =', calls, 'and step returned', out)
            print('REPLAY: VIOLATION-CONFIRMED an exception that is neither SolverError nor MatrixError was swallowed by a retry')
            return
        if out['t'] != 1. or any(not (0. <= a < b <= 1.) for a, b in calls):
            print(what, '\nsolve was called on the intervals (t0, t) =', calls, '; step returned t = %r' % out['t'])
            print('REPLAY: VIOLATION-CONFIRMED the bisected step does not cover [t, t + timestep]: it ends at t = %r instead of 1.0' % out['t'])
            return
    print('REPLAY: not reproduced')


# ---- NormBased on a fixed grid of finite inputs (bounded stand-in; the recorded failures are a known finding)
NB_MAGS = [1., -1., 3., 0., .5, 1e-30, 1e30, 1e-200, 1e200]


def normbased_grid():
    """The real NormBased.__call__ on every combination of NB_MAGS for one-entry vectors (res0, dres0, res1, dres1); prints
    BOUNDED-RESULT {cases, failures: [{clause, at: [i0,i1,i2,i3], inputs, got}]}.  Clauses: only-SolverError-escapes,
    rejected-step-has-scale-below-one, scale-within-minscale-maxscale."""
    import json, io, contextlib
    from nutils import solver
    warnings.simplefilter('ignore')
    nb = solver.NormBased()
    fails, cases = [], 0
    n = len(NB_MAGS)
    with contextlib.redirect_stdout(io.StringIO()), contextlib.redirect_stderr(io.StringIO()):
        for at in itertools.product(range(n), repeat=4):
            vals = [NB_MAGS[i] for i in at]
            vecs = [numpy.array([v]) for v in vals]
            cases += 1
            try:
                scale, accept = nb(*vecs)
            except solver.SolverError:
                continue
            except Exception as e:
                fails.append(dict(clause='only-SolverError-escapes', at=list(at), inputs=vals, got=type(e).__name__))
                continue
            scale, accept = float(scale), bool(accept)
            if not nb.minscale <= scale <= nb.maxscale:
                fails.append(dict(clause='scale-within-minscale-maxscale', at=list(at), inputs=vals, got=[repr(scale), accept]))
            if not accept and not scale < 1:
                fails.append(dict(clause='rejected-step-has-scale-below-one', at=list(at), inputs=vals, got=[repr(scale), accept]))
    print('BOUNDED-RESULT ' + json.dumps(dict(cases=cases, failures=fails)))
