#!/bin/bash
# usage: tools/seedcheck.sh <property> <patch.diff> [extra ./check args]   -- runs the property's check against a scratch copy of /repo/src with the patch applied
p=$1; patch=$2; shift 2
d=$HOME/.cache/verif-scratch/seedcheck-$p-$$
rm -rf $d; mkdir -p $d; cp -r /repo/src $d/src
(cd $d && patch -p1 < $patch >/dev/null) || { echo "patch does not apply"; rm -rf $d; exit 9; }
out=$(VERIF_NPROC=${VERIF_NPROC:-8} VERIF_REPO=$d VERIF_EVIDENCE_DIR=$d/ev VERIF_REPLAY_DIR=$d/rp "$(dirname "$0")/../check" $p "$@" 2>&1); rc=$?
echo "$p rc=$rc $(echo "$out" | grep ' quick: ')"
echo "$out" | grep -v " quick: \|^  generated\|^KNOWN" | cut -c1-240 | head -8
rm -rf $d
exit $rc
