#!/usr/bin/env python3-vt
"""debug: tools/cpu_ob.py <prop> <contract-substr> <clause-substr>  -- solve matching obligations in-process, report CPU seconds (robust under load)"""
import sys, os, time
sys.path.insert(0, os.path.dirname(os.path.dirname(os.path.abspath(__file__))))
sys.setrecursionlimit(10000)
import importlib, z3
from pyvc.contract import generate
prop, csub, clsub = sys.argv[1:4]
mod = importlib.import_module('contracts.' + prop)
for c in mod.contracts():
    if (not c.key().endswith(csub[:-1]) if csub.endswith('$') else csub not in c.key()) or getattr(c, 'native', False):
        continue
    t0 = time.process_time()
    cr = generate(c)
    tot = {}
    print(c.key(), cr.status, cr.reason, 'paths', cr.paths, 'gen cpu %.1fs' % (time.process_time() - t0))
    for o in cr.obligations:
        if clsub not in o.name or o.kind == 'cover':
            continue
        ctx = z3.Context()
        s = z3.Solver(ctx=ctx)
        s.set('timeout', int(os.environ.get('OB_TIMEOUT_MS', '10000')))
        s.from_string(o.smt2())
        t0 = time.process_time()
        r = s.check()
        dt = time.process_time() - t0
        if str(r) != 'unsat' or dt > float(os.environ.get('OB_SLOW', '1.0')) or os.environ.get('OB_ALL'):
            print('%-8s cpu %6.2fs  %s' % (r, dt, o.name))
        tot[str(r)] = tot.get(str(r), 0) + 1
    print('   totals', tot)
