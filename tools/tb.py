#!/usr/bin/env python3-vt
"""tools/tb.py <prop> <contract-key-substring>: run one contract's generation and show the traceback / status"""
import sys, os, importlib, traceback
sys.path.insert(0, os.path.dirname(os.path.dirname(os.path.abspath(__file__))))
sys.setrecursionlimit(10000)
from pyvc.contract import generate
mod = importlib.import_module('contracts.' + sys.argv[1])
for c in mod.contracts():
    if sys.argv[2] in c.key():
        try:
            r = generate(c)
            print(c.key(), r.status, r.reason[:400], 'paths', r.paths, 'obligations', len(r.obligations))
        except Exception:
            traceback.print_exc()
        break
