#!/usr/bin/env python3-vt
"""debug: tools/debug_ob.py <prop> <contract-substr> <clause-substr> [bound]  -- print status/model of matching obligations"""
import sys, os
sys.path.insert(0, os.path.dirname(os.path.dirname(os.path.abspath(__file__))))
sys.setrecursionlimit(10000)
import importlib
from pyvc.contract import generate
from pyvc import discharge, nparr
prop, csub, clsub = sys.argv[1:4]
if len(sys.argv) > 4:
    nparr.BOUND = int(sys.argv[4])
mod = importlib.import_module('contracts.' + prop)
for c in mod.contracts():
    if csub not in c.key():
        continue
    cr = generate(c)
    print(c.key(), cr.status, cr.reason, 'paths', cr.paths)
    obs = [o for o in cr.obligations if clsub in o.name]
    discharge.discharge(obs, timeout_ms=60000, fallbacks=False)
    for o in obs:
        print(o.name, o.status, round(o.seconds, 2), o.output)
        if o.model:
            for k in sorted(o.model):
                if not k.startswith('k!') and len(o.model[k]) < 200:
                    print('    ', k, '=', o.model[k])
