#!/usr/bin/env python3
"""resolve merge conflicts in a file: resolve.py <file> ours|theirs|both"""
import re, sys
p, mode = sys.argv[1], sys.argv[2]
s = open(p).read()
def rep(m):
    a, b = m.group(1), m.group(2)
    return {'ours': a, 'theirs': b, 'both': a + b}[mode]
s2 = re.sub(r"<<<<<<< [^\n]*\n(.*?)=======\n(.*?)>>>>>>> [^\n]*\n", rep, s, flags=re.S)
open(p, 'w').write(s2)
