#!/usr/bin/env python3
"""usage: tools/seedstore.py <property> <name> <worktree> <verdict text>  -- copy a confirmed seeded change into seeded/<name>/"""
import json, os, shutil, subprocess, sys
prop, name, wt, verdict = sys.argv[1:5]
d = os.path.join(os.path.dirname(os.path.dirname(os.path.abspath(__file__))), 'seeded', name)
os.makedirs(d, exist_ok=True)
shutil.copy(os.path.join(wt, 'patch.diff'), os.path.join(d, 'patch.diff'))
demo = 'demo_%s.py' % prop
shutil.copy(os.path.join(wt, demo), os.path.join(d, demo))
m = json.load(open(os.path.join(wt, 'meta.json')))
env = dict(os.environ, PYTHONPATH=os.path.join(wt, 'src'))
def run():
    p = subprocess.run(['/venv/bin/python', os.path.join(wt, demo)], capture_output=True, text=True, cwd='/tmp', env=env, timeout=1800)
    return p.returncode, (p.stdout + p.stderr).strip().split('\n')[-1][:200]
with_change = run()
subprocess.run(['git', 'apply', '-R', 'patch.diff'], cwd=wt, check=True)
try:
    without = run()
finally:
    subprocess.run(['git', 'apply', 'patch.diff'], cwd=wt, check=True)
m['confirmed_by_lead'] = dict(demo_with_change='exit %d: %s' % with_change, demo_without_change='exit %d: %s' % without, check_verdict=verdict,
                              full_suite='see seeded/FULL_SUITE.md (combined run of all seeded changes)')
json.dump(m, open(os.path.join(d, 'meta.json'), 'w'), indent=1)
print(name, with_change, without)
