#!/usr/bin/env python3
"""Faster variant of selftest/run.py for a loaded machine: runs `./check <prop> --only <text>` (only the contracts whose key
contains the entry's `only` / `expect` text, plus the ground obligations) against the mutated scratch copy.
  kill:     a VIOLATION line and the expected obligation name must appear
  harmless: no VIOLATION, no CHECKER-ERROR, and no UNDECIDED line other than the ledger notices --only always causes
The authoritative runner remains selftest/run.py (whole property per entry).
usage: tools/quick_kill.py <id> ... [--jobs=N]"""
import json, os, shutil, subprocess, sys, tempfile, concurrent.futures

HERE = os.path.dirname(os.path.dirname(os.path.abspath(__file__)))
REPO = os.environ.get('VERIF_REPO', '/repo')
SCRATCH = os.path.join(os.path.expanduser('~'), '.cache', 'verif-scratch-quick')


def run_one(m):
    os.makedirs(SCRATCH, exist_ok=True)
    d = tempfile.mkdtemp(prefix='q-', dir=SCRATCH)
    try:
        shutil.copytree(os.path.join(REPO, 'src'), os.path.join(d, 'src'), ignore=shutil.ignore_patterns('__pycache__'))
        p = os.path.join(d, 'src', 'nutils', m['file'])
        s = open(p).read()
        if s.count(m['old']) != m.get('count', 1):
            return m, 'STALE', 'pattern occurs %d times' % s.count(m['old'])
        s = s.replace(m['old'], m['new'])
        open(p, 'w').write(s)
        compile(s, p, 'exec')
        env = dict(os.environ, VERIF_REPO=d, VERIF_EVIDENCE_DIR=os.path.join(d, 'evidence'), VERIF_REPLAY_DIR=os.path.join(d, 'replay'))
        only = m.get('only') or m.get('expect')
        r = subprocess.run([os.path.join(HERE, 'check'), m['property'], '--tier', 'quick', '--only', only], capture_output=True, text=True, env=env, timeout=6000)
        out = r.stdout + r.stderr
        if m.get('kind', 'kill') == 'kill':
            ok = 'VIOLATION property=%s' % m['property'] in out and any(m.get('expect', '') in l for l in out.split('\n') if l.startswith('obligation failed'))
            return m, ('KILLED' + ('+replayed' if 'input replayed on the real code' in out else '')) if ok else 'MISSED(exit %d)' % r.returncode, out[-1500:]
        bad = [l for l in out.split('\n') if 'VIOLATION' in l or 'CHECKER-ERROR' in l or (l.startswith('UNDECIDED') and 'ledger clause not generated' not in l)]
        gen = [l for l in out.split('\n') if l.startswith('  generated') and only in l]
        return m, 'QUIET' if not bad and gen and r.returncode in (0, 2) else 'FALSE-ALARM(exit %d)' % r.returncode, out[-1500:]
    finally:
        shutil.rmtree(d, ignore_errors=True)


def main():
    ids = [a for a in sys.argv[1:] if not a.startswith('--')]
    jobs = 4
    for a in sys.argv[1:]:
        if a.startswith('--jobs='):
            jobs = int(a.split('=')[1])
    muts = []
    for f in sorted(os.listdir(os.path.join(HERE, 'selftest', 'mutations'))):
        muts += [m for m in json.load(open(os.path.join(HERE, 'selftest', 'mutations', f))) if m.get('id') in ids or m.get('property') in ids]
    bad = 0
    with concurrent.futures.ThreadPoolExecutor(jobs) as ex:
        for m, verdict, out in ex.map(run_one, muts):
            good = verdict.startswith('KILLED') or verdict == 'QUIET'
            print('%-16s %-28s %s' % (verdict, m['id'], m.get('what', '')), flush=True)
            if not good:
                bad += 1
                print('    ' + out.replace('\n', '\n    ')[-1200:], flush=True)
    print('%d mutations, %d unexpected' % (len(muts), bad))
    return 1 if bad else 0


if __name__ == '__main__':
    sys.exit(main())
