#!/usr/bin/env python3-vt
"""debug: tools/run_contracts.py <module under contracts/> [key-substr ...]  -- generate the matching contracts (also PARKED ones
when the substring 'PARKED' is given), discharge ALL their obligations in one pool, print everything that is not proved"""
import sys, os, time
sys.path.insert(0, os.path.dirname(os.path.dirname(os.path.abspath(__file__))))
sys.setrecursionlimit(10000)
import importlib
from pyvc.contract import generate
from pyvc import discharge
mod = importlib.import_module('contracts.' + sys.argv[1])
subs = sys.argv[2:]
cs = list(mod.contracts())
if 'PARKED' in subs:
    cs = list(getattr(mod, 'PARKED', []))
    subs = [s for s in subs if s != 'PARKED']
obs = []
t0 = time.time()
for c in cs:
    if subs and not any(s in c.key() for s in subs):
        continue
    cr = generate(c)
    print('%-90s %s %s paths=%d obligations=%d' % (c.key(), cr.status, cr.reason[:300], cr.paths, len(cr.obligations)), flush=True)
    obs += cr.obligations
print('generated in %.1fs; discharging %d obligations' % (time.time() - t0, len(obs)), flush=True)
discharge.discharge(obs, timeout_ms=20000, fallbacks=False)
bad = [o for o in obs if o.status != 'proved']
for o in bad:
    print(o.name, o.status, round(o.seconds, 2), (o.output or '')[:200])
print('%d obligations, %d not proved, slowest %.1fs, wall %.1fs' % (len(obs), len(bad), max([o.seconds for o in obs] or [0]), time.time() - t0))
