#!/bin/bash
# Re-run every claimed check (quick tier) on the current /repo tree; all must exit 0.  Run before committing evidence.
cd "$(dirname "$0")/.."
git -C /repo diff --quiet || { echo "/repo has uncommitted changes"; exit 1; }
rc=0
for p in $(python3 -c "import json; print(' '.join(c['property_id'] for c in json.load(open('MANIFEST.json'))['checks']))"); do
  out=$(./check $p --tier quick 2>&1); r=$?
  echo "$p exit=$r $(echo "$out" | grep " quick: " | cut -c1-150)"
  [ $r -ne 0 ] && rc=1 && echo "$out" | tail -5
done
python3-vt - <<'PY'
import json, jsonschema, glob
sch = json.load(open('/root/.vp/EVIDENCE.schema.json'))
for f in sorted(f for f in glob.glob('evidence/*.json') if not f.endswith('.partial.json')):
    d = json.load(open(f)); jsonschema.validate(d, sch)
    c = d['coverage']; assert c['obligations'] == c['discharged'], (f, c['obligations'], c['discharged'])
print('evidence valid')
PY
exit $rc
