#!/usr/bin/env python3-vt
"""dev aid: tools/try_mut.py <mutation-id> <contract-substr>  -- apply one kill-list entry to a scratch copy and solve the matching
contract's obligations in-process (no ledger, no replay); prints every obligation that is not unsat.  The official verdict is selftest/run.py."""
import sys, os, json, shutil, tempfile, subprocess
HERE = os.path.dirname(os.path.dirname(os.path.abspath(__file__)))
mid, csub = sys.argv[1:3]
muts = []
for f in sorted(os.listdir(os.path.join(HERE, 'selftest', 'mutations'))):
    muts += json.load(open(os.path.join(HERE, 'selftest', 'mutations', f)))
m = [x for x in muts if x.get('id') == mid][0]
scr = os.path.join(os.path.expanduser('~'), '.cache', 'verif-scratch')
os.makedirs(scr, exist_ok=True)
d = tempfile.mkdtemp(prefix='t-', dir=scr)
try:
    shutil.copytree('/repo/src', os.path.join(d, 'src'), ignore=shutil.ignore_patterns('__pycache__'))
    p = os.path.join(d, 'src', 'nutils', m['file'])
    s = open(p).read()
    assert s.count(m['old']) == m.get('count', 1), 'STALE: pattern occurs %d times' % s.count(m['old'])
    open(p, 'w').write(s.replace(m['old'], m['new']))
    r = subprocess.run([sys.executable, os.path.join(HERE, 'tools', 'cpu_ob.py'), m['property'], csub, ''], capture_output=True, text=True, env=dict(os.environ, VERIF_REPO=d), cwd=HERE)
    lines = (r.stdout + r.stderr).split('\n')
    bad = [l for l in lines if l and not l.startswith('unsat')]
    print('%s (%s) %s: %d obligations unsat' % (mid, m.get('kind', 'kill'), m.get('what', ''), sum(1 for l in lines if l.startswith('unsat'))))
    for l in bad[-25:]:
        print('   ', l)
finally:
    shutil.rmtree(d, ignore_errors=True)
