#!/usr/bin/env python3
"""Run the repository's pinned test command and compare with /root/.vp/BASELINE.json (stable_pass)."""
import json, subprocess, sys, os, xml.etree.ElementTree as ET
out = os.path.expanduser('~/.cache/verif-scratch/baseline.junit.xml')
os.makedirs(os.path.dirname(out), exist_ok=True)
base = json.load(open('/root/.vp/BASELINE.json'))
extra = sys.argv[1:]
cmd = 'cd /repo && /venv/bin/python -m pytest -ra -q -p no:cacheprovider --timeout=900 --continue-on-collection-errors -n 12 --junitxml=%s %s' % (out, ' '.join(extra))
subprocess.run(cmd, shell=True, stdout=subprocess.DEVNULL, stderr=subprocess.DEVNULL)
passed = set()
for tc in ET.parse(out).getroot().iter('testcase'):
    if not any(c.tag in ('failure', 'error', 'skipped') for c in tc):
        passed.add('%s::%s' % (tc.get('classname'), tc.get('name')))
stable = set(base['stable_pass'])
missing = sorted(stable - passed)
print('stable_pass', len(stable), 'passed now', len(passed), 'regressions', len(missing))
for m in missing[:30]:
    print('  REGRESSION', m)
os.remove(out)
sys.exit(1 if missing else 0)
