"""Path exploration (fork by deterministic re-execution) and obligations."""
import z3, time
from .values import PyRaise, NeedFork, Unsupported, SBool, zbool

import os
_DEBUG = bool(os.environ.get('VERIF_DEBUG_BRANCH'))
FEAS_TIMEOUT_MS = 20000
FEAS_RLIMIT = 3000000  # deterministic resource limit: verdicts of in-process feasibility checks must not depend on load


class PathInfeasible(Exception):
    pass


class PathLimit(Exception):
    pass


class Obligation:
    def __init__(self, name, hyps, goal, kind, fn=None, clause=None, path=None, bounded=None, info=None, symbols=None):
        self.name = name
        self.hyps = list(hyps)
        self.goal = goal
        self.kind = kind  # ensures | raises | invariant | safety | lemma | ground
        self.fn = fn
        self.clause = clause
        self.path = path
        self.bounded = bounded  # None, or the text of the bound
        self.info = info or {}
        self.symbols = symbols or []  # z3 consts whose model values are reported
        # filled by discharge
        self.status = None  # proved | refuted | unknown | error
        self.backend = None
        self.seconds = 0.0
        self.model = None
        self.output = None

    def smt2(self, timeout_ms=None):
        s = z3.Solver()
        for h in self.hyps:
            s.add(h)
        s.add(z3.Not(self.goal))
        return s.to_smt2()


class Ctx:
    """Execution context of ONE path.  `script` is the list of branch decisions to replay."""

    def __init__(self, script, pending, hints=None):
        self.script = list(script)
        self.pending = pending
        self.trace = []
        self.pre = []  # hypotheses from the contract's precondition / class invariants / axioms
        self.pc = []  # branch conditions of this path
        self.solver = z3.Solver()
        self.solver.set('timeout', FEAS_TIMEOUT_MS)
        self.solver.set('rlimit', FEAS_RLIMIT)
        self.solver.set('smt.mbqi', False)  # feasibility pruning uses E-matching only: bounded effort, `unknown` counts as feasible
        self.pure = 0
        self.pure_extra = []
        self.counter = {}
        self.obligations = []  # side obligations emitted during execution (invariants, safety)
        self.notes = []
        self.dropped = set()  # syntax dropped/abstracted on this path (for evidence)
        self.used_axioms = set()
        self.ghost = {}
        self.symbols = []  # named input symbols (z3 consts) for model reporting
        self.in_setup = True
        self.inv_mode = 'goal'  # 'assume' while a loop invariant is being assumed (existentials may be Skolemised)
        self.nchecks = 0

    # ---- symbols
    def name(self, base):
        base = base.replace("'", '^').replace('"', '^').replace('|', '!').replace('\\', '!').replace(' ', '_')
        if len(base) > 48:
            import hashlib
            base = base[:36] + '~' + hashlib.sha1(base.encode()).hexdigest()[:8]
        n = self.counter.get(base, 0)
        self.counter[base] = n + 1
        return base if n == 0 else '%s!%d' % (base, n)

    def int(self, base, report=True):
        c = z3.Int(self.name(base))
        if report:
            self.symbols.append(c)
            from . import nparr
            if nparr.BOUND is not None:  # refutation mode: small window for input integers
                w = 2 * nparr.BOUND + 2
                self.assume(z3.And(c >= -w, c <= w))
        return c

    def bool(self, base, report=True):
        c = z3.Bool(self.name(base))
        if report:
            self.symbols.append(c)
        return c

    def real(self, base, report=True):
        c = z3.Real(self.name(base))
        if report:
            self.symbols.append(c)
        return c

    def const(self, base, sort, report=True):
        c = z3.Const(self.name(base), sort)
        if report:
            self.symbols.append(c)
        return c

    # ---- assumptions
    def assume(self, cond, axiom=None):
        cond = zbool(cond)
        if self.in_setup:
            self.pre.append(cond)
        else:
            self.pc.append(cond)
        self.solver.add(cond)
        if axiom:
            self.used_axioms.add(axiom)

    def hyps(self):
        return self.pre + self.pc + self.pure_extra

    # ---- feasibility / forking
    def _check(self, *conds):
        self.nchecks += 1
        self.solver.push()
        try:
            for c in conds:
                self.solver.add(c)
            return self.solver.check()
        finally:
            self.solver.pop()

    def feasible(self, cond):
        return self._check(cond) != z3.unsat

    def entails(self, cond):
        """True iff the current hypotheses prove cond (quickly)."""
        return self._check(*self.pure_extra, z3.Not(cond)) == z3.unsat

    def branch(self, cond):
        """Decide a symbolic condition on this path; forks by re-execution."""
        if isinstance(cond, SBool):
            cond = cond.b
        if isinstance(cond, bool):
            return cond
        cond = z3.simplify(cond)
        if z3.is_true(cond):
            return True
        if z3.is_false(cond):
            return False
        if self.pure:
            # in merge mode a condition may only be resolved if it is implied
            if self._check(*self.pure_extra, z3.Not(cond)) == z3.unsat:
                return True
            if self._check(*self.pure_extra, cond) == z3.unsat:
                return False
            raise NeedFork()
        idx = len(self.trace)
        if idx < len(self.script):
            choice = self.script[idx]
        else:
            ft = self.feasible(cond)
            ff = self.feasible(z3.Not(cond))
            if _DEBUG:
                print('    branch#%d %s -> true:%s false:%s' % (idx, str(cond)[:100].replace('\n', ' '), ft, ff))
            if ft and ff:
                choice = True
                self.pending.append(self.trace[:idx] + [False])
            elif ft:
                choice = True
            elif ff:
                choice = False
            else:
                raise PathInfeasible()
        self.trace.append(choice)
        c = cond if choice else z3.Not(cond)
        if self.in_setup:
            self.pre.append(c)
        else:
            self.pc.append(c)
        self.solver.add(c)
        return choice

    def truth(self, v):
        """Python truthiness of a value as bool or z3 Bool."""
        from . import ops
        return ops.truth(self, v)

    # ---- obligations emitted mid-path
    def oblige(self, clause, goal, kind='invariant', info=None, bounded=None):
        self.obligations.append((clause, list(self.hyps()), zbool(goal), kind, info, bounded))

    def lemma(self, clause, formula, info=None):
        """assert-then-assume: an intermediate fact is proved from the current hypotheses and then available."""
        self.oblige('lemma:' + clause, formula, kind='lemma', info=info)
        self.assume(formula)

    def note(self, text):
        self.notes.append(text)


class PathResult:
    def __init__(self, ctx, outcome, value=None, exc=None):
        self.ctx = ctx
        self.outcome = outcome  # 'return' | 'raise' | 'cut'
        self.value = value
        self.exc = exc  # PyRaise


def explore(run_path, max_paths=4000, time_budget=600):
    """Enumerate all feasible paths of run_path(ctx) -> PathResult."""
    pending = [[]]
    results = []
    t0 = time.time()
    n = 0
    while pending:
        script = pending.pop()
        ctx = Ctx(script, pending)
        n += 1
        if n > max_paths:
            raise PathLimit('more than %d paths' % max_paths)
        if time.time() - t0 > time_budget:
            raise PathLimit('path exploration exceeded %ds' % time_budget)
        try:
            res = run_path(ctx)
        except PathInfeasible:
            continue
        if res is not None:
            results.append(res)
    return results
