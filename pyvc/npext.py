"""More of the 1-D numpy model (each entry an exact external axiom) and an induction helper.

Installed on import (`from pyvc import npext`); a contract that does not import this module sees `Unsupported`
for these names, so nothing here can change a verdict of a contract that does not ask for it.

  a[i, ...]                      0-d view of element i (writable through `out=`)
  numpy.add / numpy.subtract     elementwise on ints (scalars or 1-D int arrays), `out=` writes through views, `dtype=` must be int
  ndarray.nonzero()              (nz,) with nz strictly increasing, exactly the positions holding a nonzero/True value
  numpy.repeat(a, counts)        block structure by offsets: off[0] = 0, off[j+1] = off[j] + counts[j], len = off[len(a)],
                                 result[p] = a[j] for off[j] <= p < off[j+1]; ValueError iff some count is negative
  numpy.concatenate([v1..vk])    (concrete number of 1-D parts) result[o_j + i] = v_j[i], o_j = len(v_1) + .. + len(v_{j-1})
  induct(ctx, name, P, lo, hi)   explicit base + step obligations, then forall j in [lo, hi]: P(j) is assumed
Each call records what it saw in ctx.ghost so that a contract can state lemmas about the intermediate arrays.
"""
import z3
from .values import Sym, SInt, SBool, PyRaise, Unsupported, zint, is_intlike
from . import nparr
from .nparr import Vec, Numpy, DType, qforall, qexists, wrap, unwrap, _pick, _kind_of_dtype

I = z3.IntSort()


def has_quantifier(e, _memo={}):
    k = e.get_id()
    r = _memo.get(k)
    if r is None:
        r = z3.is_quantifier(e) or any(has_quantifier(c) for c in e.children())
        if len(_memo) > 200000:
            _memo.clear()
        _memo[k] = r
    return r


def _flatten(hyps):
    out = []
    for h in hyps:
        if z3.is_and(h):
            out += _flatten(h.children())
        else:
            out.append(h)
    return out


def _hyps(ctx, using, flatten=False):
    """Hypotheses of a lemma: all of them (using=None), or the quantifier-free ones plus the listed quantified facts.
    Proving from a subset is sound; every listed fact must BE a current hypothesis (checked), so nothing can be smuggled in.
    flatten=True: top-level conjunctions among the hypotheses are split first (a conjunct of a hypothesis is a hypothesis)."""
    hyps = list(ctx.hyps())
    if using is None:
        return hyps
    if flatten:
        hyps, using = _flatten(hyps), _flatten(using)
    ids = set(h.get_id() for h in hyps)
    for u in using:
        if u.get_id() not in ids and not any(u.eq(h) for h in hyps):
            raise RuntimeError('lemma hint is not a hypothesis of the path: %s' % str(u)[:200])
    return [h for h in hyps if not has_quantifier(h)] + list(using)


def lemma(ctx, name, formula, using=None, flatten=False, skolemize=False, instances=None):
    """assert-then-assume like ctx.lemma, optionally proved from a named subset of the quantified hypotheses.
    skolemize=True: a goal `forall x. P(x)` is handed to the solver as P(c) for fresh constants c (forall-introduction: c occurs in
    no hypothesis, so the two obligations are equivalent; the solver's own Skolemisation does the same, this only makes the ground
    terms of the goal visible from the start).  What is assumed afterwards is the quantified formula.
    instances(c) -> [(hypothesis, (t1..tk))]: ground instances of universally quantified hypotheses (each checked to BE a hypothesis
    of the path) added to the obligation's hypotheses -- forall-elimination, sound, and lets a lemma be proved without quantifiers."""
    from .values import zbool
    f = zbool(formula)
    goal, cs = f, []
    if skolemize and z3.is_quantifier(f) and f.is_forall():
        cs = [z3.Const(ctx.name('sk!%s!%s' % (name, f.var_name(i))), f.var_sort(i)) for i in range(f.num_vars())]
        goal = z3.substitute_vars(f.body(), *reversed(cs))
    if nparr.BOUND is not None:
        # counterexample search (bounded, quantifiers expanded): everything is quantifier-free already, use all hypotheses
        hyps, instances = list(ctx.hyps()), None
    else:
        hyps = _hyps(ctx, using, flatten)
    if instances is not None:
        allh = _flatten(list(ctx.hyps())) if flatten else list(ctx.hyps())
        ids = set(h.get_id() for h in allh)
        for h, args in instances(*cs):
            if h.get_id() not in ids or not (z3.is_quantifier(h) and h.is_forall() and h.num_vars() == len(args)):
                raise RuntimeError('lemma instance: not a universally quantified hypothesis of the path: %s' % str(h)[:200])
            hyps.append(z3.substitute_vars(h.body(), *reversed(list(args))))
    ctx.obligations.append(('lemma:' + name, hyps, goal, 'lemma', None, None))
    ctx.assume(f)
    return f


def induct(ctx, name, P, lo, hi, using=None):
    """Induction over the integers lo..hi (the third route of DESIGN 2.6): two obligations, discharged by the solver,
         base:  lo <= hi  =>  P(lo)
         step:  lo <= j < hi and P(j)  =>  P(j+1)        (j a fresh constant, i.e. universally quantified)
    and then  forall j: lo <= j <= hi => P(j)  becomes available (returned).  The induction principle itself is the trusted part."""
    lo = lo if z3.is_expr(lo) else z3.IntVal(lo)
    hyps = _hyps(ctx, using)
    ctx.obligations.append(('lemma:%s:base' % name, hyps, z3.Implies(lo <= hi, P(lo)), 'lemma', None, None))
    j = ctx.int('j@%s' % name, report=False)
    ctx.obligations.append(('lemma:%s:step' % name, hyps, z3.Implies(z3.And(lo <= j, j < hi, P(j)), P(j + 1)), 'lemma', None, None))
    concl = qforall(1, lambda k: z3.Implies(z3.And(lo <= k, k <= hi), P(k)))
    ctx.assume(concl, axiom='induction over an integer interval: base and step are discharged obligations, the conclusion forall j in [lo, hi]: P(j) is then assumed')
    return concl


def snapshot(v):
    """The contents of v NOW as a closure index -> term (later writes to v or its base do not show)."""
    if v.base is None:
        s = v._sel
        return s
    b, off = v.base
    sb = snapshot(b)
    return lambda i: sb(i + off)


class Cell(Sym):
    """a[i, ...]: the 0-d view of one element of a 1-D array."""

    def __init__(self, arr, i):
        self.arr, self.i = arr, i

    def write(self, ctx, value):
        arr, i = self.arr, self.i
        old = snapshot(arr)
        e = unwrap(arr.kind, value)
        arr._write(lambda j: _pick(arr.kind, j == i, e, old(j)))

    def getattr(self, ctx, name):
        if name == 'ndim':
            return 0
        if name == 'shape':
            return ()
        if name == 'dtype':
            return DType(self.arr.kind)
        raise Unsupported('attribute %s of a 0-d view' % name)


_vec_getitem = Vec.getitem
_vec_getattr = Vec.getattr


def _getitem(self, ctx, idx):
    if isinstance(idx, tuple) and len(idx) == 2 and idx[1] is Ellipsis and is_intlike(idx[0]) and type(self) is Vec:
        return Cell(self, self.norm_index(ctx, idx[0]))
    return _vec_getitem(self, ctx, idx)


def _getattr(self, ctx, name):
    if name == 'nonzero' and type(self) is Vec:
        return lambda ctx: vec_nonzero(ctx, self)
    return _vec_getattr(self, ctx, name)


def vec_nonzero(ctx, v):
    """ndarray.nonzero() of a 1-D int/bool array."""
    if v.kind not in ('int', 'bool'):
        raise Unsupported('nonzero of %s array' % v.kind)
    s = snapshot(v)
    hit = (lambda k: s(k) != 0) if v.kind == 'int' else (lambda k: s(k))
    n = v.n
    m = ctx.int('len(nonzero(%s))' % v.name, report=False)
    nz = Vec.fresh(ctx, 'nonzero(%s)' % v.name, 'int', n=m, report=False)
    rank = z3.Function(ctx.name('rank!nz(%s)' % v.name), I, I)
    ax = 'ndarray.nonzero() of a 1-D array: (nz,) with 0 <= len(nz) <= len, nz strictly increasing (i < j => nz[i] < nz[j]), a[nz[j]] != 0, and every k with a[k] != 0 equals nz[rank(k)]'
    ctx.assume(z3.And(0 <= m, m <= n), axiom=ax)
    ax_range = qforall(1, lambda j: z3.Implies(z3.And(0 <= j, j < m), z3.And(0 <= nz.sel(j), nz.sel(j) < n, hit(nz.sel(j)))))
    ax_mono = qforall(2, lambda a, b: z3.Implies(z3.And(0 <= a, a < b, b < m), nz.sel(a) < nz.sel(b)))
    ax_rank = qforall(1, lambda k: z3.Implies(z3.And(0 <= k, k < n, hit(k)), z3.And(0 <= rank(k), rank(k) < m, nz.sel(rank(k)) == k)))
    for f in (ax_range, ax_mono, ax_rank):
        ctx.assume(f)
    ctx.ghost['nonzero'] = dict(src=s, n=n, nz=nz, rank=rank, arr=v, ax_range=ax_range, ax_mono=ax_mono, ax_rank=ax_rank)
    return (nz,)


def _int_dtype_only(ctx, dtype):
    if dtype is not None and _kind_of_dtype(ctx, dtype) != 'int':
        raise Unsupported('ufunc with a non-int dtype')


def _ufunc(ctx, f, a, b, out, dtype, name):
    """numpy.add/subtract on ints: scalars and/or 1-D int arrays; `out` (1-D view or 0-d view) is written through."""
    _int_dtype_only(ctx, dtype)
    av, bv = isinstance(a, Vec), isinstance(b, Vec)
    for x in (a, b):
        if not (is_intlike(x) or (isinstance(x, Vec) and x.kind == 'int')):
            raise Unsupported('numpy.%s operand %r' % (name, x))
    if not av and not bv:
        r = SInt(f(zint(a), zint(b)))
        if out is None:
            return r
        if isinstance(out, Cell):
            if out.arr.kind != 'int':
                raise Unsupported('numpy.%s into a non-int array' % name)
            out.write(ctx, r)
            return out
        if isinstance(out, Vec) and out.kind == 'int':
            out._write(lambda i: r.v)
            return out
        raise Unsupported('numpy.%s out=%r' % (name, out))
    if av and bv:
        sa, sb = snapshot(a), snapshot(b)
        if ctx.branch(a.n == b.n):
            r = Vec('int', a.n, lambda i: f(sa(i), sb(i)), '%s(%s,%s)' % (name, a.name, b.name))
        else:
            if not ctx.branch(z3.Or(a.n == 1, b.n == 1)):
                raise PyRaise('ValueError', note='operands could not be broadcast together')
            r = Vec('int', z3.If(a.n == 1, b.n, a.n), lambda i: f(sa(z3.If(a.n == 1, 0, i)), sb(z3.If(b.n == 1, 0, i))), name)
    elif av:
        sa, e = snapshot(a), zint(b)
        r = Vec('int', a.n, lambda i: f(sa(i), e), '%s(%s,c)' % (name, a.name))
    else:
        sb, e = snapshot(b), zint(a)
        r = Vec('int', b.n, lambda i: f(e, sb(i)), '%s(c,%s)' % (name, b.name))
    if out is None:
        return r
    if isinstance(out, Cell):
        raise PyRaise('ValueError', note='non-broadcastable output operand')
    if not (isinstance(out, Vec) and out.kind == 'int'):
        raise Unsupported('numpy.%s out=%r' % (name, out))
    if not ctx.branch(out.n == r.n):
        if not ctx.branch(r.n == 1):
            raise PyRaise('ValueError', note='non-broadcastable output operand')
        rs = r._sel
        out._write(lambda i: rs(z3.IntVal(0)))
        return out
    out._write(r._sel)
    return out


def np_add(self, ctx, a, b, out=None, dtype=None):
    return _ufunc(ctx, lambda x, y: x + y, a, b, out, dtype, 'add')


def np_subtract(self, ctx, a, b, out=None, dtype=None):
    return _ufunc(ctx, lambda x, y: x - y, a, b, out, dtype, 'subtract')


def np_repeat(self, ctx, a, counts, axis=None):
    """numpy.repeat(a, counts) for 1-D a and an equally long 1-D int array of counts."""
    if axis is not None or not (isinstance(a, Vec) and isinstance(counts, Vec) and counts.kind == 'int'):
        raise Unsupported('numpy.repeat variant')
    if not ctx.branch(a.n == counts.n):
        if not ctx.branch(counts.n == 1):
            raise PyRaise('ValueError', note='operands could not be broadcast together')
        raise Unsupported('numpy.repeat with a broadcast count')
    sa, sc, m = snapshot(a), snapshot(counts), a.n
    ax = ('numpy.repeat(a, counts), 1-D: ValueError iff some count is negative; else with off[0] = 0, off[j+1] = off[j] + counts[j] (offsets non-decreasing): '
          'len(result) = off[len(a)], result[p] = a[j] whenever off[j] <= p < off[j+1], and every position p lies in one block seg(p)')
    ctx.used_axioms.add(ax)
    neg = qexists(1, lambda j: z3.And(0 <= j, j < m, sc(j) < 0))
    if ctx.branch(neg):
        ctx.ghost['repeat-raised'] = dict(a=a, counts_sel=sc, m=m, neg=neg)
        raise PyRaise('ValueError', note='repeats may not contain negative values')
    # the branch recorded Not(neg) as a path condition; the same fact in universal form
    ax_nonneg = qforall(1, lambda j: z3.Implies(z3.And(0 <= j, j < m), sc(j) >= 0))
    ctx.assume(ax_nonneg)
    off = z3.Function(ctx.name('off!repeat'), I, I)
    seg = z3.Function(ctx.name('seg!repeat'), I, I)
    ax_off = z3.And(off(0) == 0, qforall(1, lambda j: z3.Implies(z3.And(0 <= j, j < m), off(j + 1) == off(j) + sc(j))))
    ax_offmono = qforall(2, lambda i, j: z3.Implies(z3.And(0 <= i, i <= j, j <= m), off(i) <= off(j)))
    total = off(m)
    r = Vec.fresh(ctx, 'repeat(%s)' % a.name, a.kind, n=total, report=False)
    ax_blocks = qforall(2, lambda j, p: z3.Implies(z3.And(0 <= j, j < m, off(j) <= p, p < off(j + 1)), nparr.eq_elem(a.kind, r.sel(p), sa(j))))
    ax_seg = qforall(1, lambda p: z3.Implies(z3.And(0 <= p, p < total),
                                             z3.And(0 <= seg(p), seg(p) < m, off(seg(p)) <= p, p < off(seg(p) + 1), nparr.eq_elem(a.kind, r.sel(p), sa(seg(p))))))
    for f in (ax_off, ax_offmono, ax_blocks, ax_seg):
        ctx.assume(f)
    ctx.ghost['repeat'] = dict(a=a, a_sel=sa, counts=counts, counts_sel=sc, m=m, off=off, seg=seg, result=r,
                               ax_nonneg=ax_nonneg, ax_off=ax_off, ax_offmono=ax_offmono, ax_blocks=ax_blocks, ax_seg=ax_seg)
    return r


def np_concatenate(self, ctx, parts, axis=0, dtype=None):
    """numpy.concatenate of a concrete number (>= 1) of 1-D arrays of one kind."""
    parts = list(parts) if isinstance(parts, (list, tuple)) else None
    if parts is None or axis != 0 or dtype is not None:
        raise Unsupported('numpy.concatenate variant')
    if not parts:
        raise PyRaise('ValueError', note='need at least one array to concatenate')
    if not all(isinstance(p, Vec) for p in parts) or len(set(p.kind for p in parts)) != 1:
        raise Unsupported('numpy.concatenate of %r' % (parts,))
    kind = parts[0].kind
    sels = [snapshot(p) for p in parts]
    offs = [z3.IntVal(0)]
    for p in parts:
        offs.append(z3.simplify(offs[-1] + p.n))
    ctx.used_axioms.add('numpy.concatenate([v1..vk]) of 1-D arrays: len = sum of len(vj), result[len(v1)+..+len(v_{j-1}) + i] = vj[i]')

    def sel(i):
        e = sels[-1](i - offs[len(parts) - 1])
        for j in range(len(parts) - 2, -1, -1):
            e = _pick(kind, i < offs[j + 1], sels[j](i - offs[j]), e)
        return e
    r = Vec(kind, offs[-1], sel, 'concatenate')
    ctx.ghost.setdefault('concatenate', []).append(dict(parts=parts, offs=offs, result=r))
    return r


def install():
    Vec.getitem = _getitem
    Vec.getattr = _getattr
    Numpy.np_add = np_add
    Numpy.np_subtract = np_subtract
    Numpy.np_repeat = np_repeat
    Numpy.np_concatenate = np_concatenate


install()
