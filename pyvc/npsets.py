"""Set-like numpy externals on 1-D int arrays, as exact axioms in Skolem-witness form (cross-checked in native/axioms.py).

  numpy.unique(v)              the strictly increasing array with the same element set as v
  numpy.union1d(a, b)          the strictly increasing array whose element set is set(a) | set(b)
  functools.reduce(numpy.union1d, seq)   for a non-empty sequence of arrays: seq[0] ITSELF when len(seq) == 1 (reduce does not
                               call the function then), else the strictly increasing array of the union of all items
"""
import z3
from .values import Unsupported, PyRaise, SInt, zint
from .nparr import Vec, qforall, I


def strictly_increasing(v):
    return qforall(2, lambda a, b: z3.Implies(z3.And(0 <= a, a < b, b < v.n), v.sel(a) < v.sel(b)))


def np_unique(ctx, v, **kw):
    if kw or not (isinstance(v, Vec) and v.kind == 'int'):
        raise Unsupported('numpy.unique variant')
    u = Vec.fresh(ctx, 'unique(%s)' % v.name, 'int', report=False)
    src = z3.Function(ctx.name('unique.src'), I, I)
    pos = z3.Function(ctx.name('unique.pos'), I, I)
    ax = 'numpy.unique(v), 1-D int: strictly increasing; every item is an item of v; every item of v occurs (Skolem witnesses)'
    ctx.assume(u.n <= v.n, axiom=ax)
    ctx.assume(strictly_increasing(u))
    ctx.assume(qforall(1, lambda j: z3.Implies(z3.And(0 <= j, j < u.n), z3.And(0 <= src(j), src(j) < v.n, v.sel(src(j)) == u.sel(j)))))
    ctx.assume(qforall(1, lambda k: z3.Implies(z3.And(0 <= k, k < v.n), z3.And(0 <= pos(k), pos(k) < u.n, u.sel(pos(k)) == v.sel(k)))))
    u.unique_src, u.unique_pos, u.unique_of = src, pos, v
    return u


def np_union1d(ctx, a, b):
    if not (isinstance(a, Vec) and a.kind == 'int' and isinstance(b, Vec) and b.kind == 'int'):
        raise Unsupported('numpy.union1d variant')
    u = Vec.fresh(ctx, 'union1d', 'int', report=False)
    side = z3.Function(ctx.name('union.side'), I, I)  # 0: from a, 1: from b
    src = z3.Function(ctx.name('union.src'), I, I)
    pa = z3.Function(ctx.name('union.posa'), I, I)
    pb = z3.Function(ctx.name('union.posb'), I, I)
    ax = 'numpy.union1d(a, b), 1-D int: strictly increasing; items are exactly the items of a and of b (Skolem witnesses)'
    ctx.assume(strictly_increasing(u), axiom=ax)
    ctx.assume(qforall(1, lambda j: z3.Implies(z3.And(0 <= j, j < u.n), z3.Or(
        z3.And(side(j) == 0, 0 <= src(j), src(j) < a.n, a.sel(src(j)) == u.sel(j)),
        z3.And(side(j) == 1, 0 <= src(j), src(j) < b.n, b.sel(src(j)) == u.sel(j))))))
    ctx.assume(qforall(1, lambda k: z3.Implies(z3.And(0 <= k, k < a.n), z3.And(0 <= pa(k), pa(k) < u.n, u.sel(pa(k)) == a.sel(k)))))
    ctx.assume(qforall(1, lambda k: z3.Implies(z3.And(0 <= k, k < b.n), z3.And(0 <= pb(k), pb(k) < u.n, u.sel(pb(k)) == b.sel(k)))))
    return u


def reduce_union1d(ctx, seq, initial=None):
    """functools.reduce(numpy.union1d, seq[, initial]) for a symbolic-length sequence `seq` (seq_len / seq_at -> int Vec).
    With an EMPTY integer array as initial value union1d is applied to every item (also to a single one): the result is the
    strictly increasing union for every len(seq) >= 0."""
    n = seq.seq_len(ctx)
    if initial is not None:
        if not (isinstance(initial, Vec) and initial.kind == 'int' and ctx.entails(initial.n == 0)):
            raise Unsupported('functools.reduce(numpy.union1d, seq, initial) with a non-empty or non-integer initial value')
    else:
        if not ctx.branch(n >= 1):
            raise PyRaise('TypeError', note='reduce() of empty iterable with no initial value')
        if ctx.branch(n == 1):
            return seq.seq_at(ctx, z3.IntVal(0))
    u = Vec.fresh(ctx, 'reduce_union1d', 'int', report=False)
    item = z3.Function(ctx.name('runion.item'), I, I)
    src = z3.Function(ctx.name('runion.src'), I, I)
    pos = z3.Function(ctx.name('runion.pos'), I, I, I)
    ax = ('functools.reduce(numpy.union1d, seq), len(seq) >= 2: strictly increasing; items are exactly the items of the arrays in seq '
          '(Skolem witnesses); len(seq) == 1: seq[0] itself; with an empty int array as initial value: the strictly increasing union for every len(seq)')
    ctx.assume(strictly_increasing(u), axiom=ax)

    def at(m):
        x = seq.seq_at(ctx, m)
        if not (isinstance(x, Vec) and x.kind == 'int'):
            raise Unsupported('reduce(union1d) over items %r' % (x,))
        return x
    ctx.assume(qforall(1, lambda j: z3.Implies(z3.And(0 <= j, j < u.n), z3.And(0 <= item(j), item(j) < n, 0 <= src(j), src(j) < at(item(j)).n,
                                                                              at(item(j)).sel(src(j)) == u.sel(j)))))
    ctx.assume(qforall(2, lambda m, k: z3.Implies(z3.And(0 <= m, m < n, 0 <= k, k < at(m).n), z3.And(0 <= pos(m, k), pos(m, k) < u.n, u.sel(pos(m, k)) == at(m).sel(k)))))
    u.runion = (item, src, pos)
    return u


def np_nonzero(ctx, mask):
    """mask.nonzero()[0] for a 1-D bool array: the strictly increasing array of the True positions."""
    if not (isinstance(mask, Vec) and mask.kind == 'bool'):
        raise Unsupported('nonzero variant')
    p = Vec.fresh(ctx, 'nonzero(%s)' % mask.name, 'int', report=False)
    rank = z3.Function(ctx.name('nonzero.rank'), I, I)
    ax = 'mask.nonzero()[0], 1-D bool: strictly increasing; items are exactly the positions holding True (Skolem witness)'
    ctx.assume(p.n <= mask.n, axiom=ax)
    ctx.assume(strictly_increasing(p))
    ctx.assume(qforall(1, lambda j: z3.Implies(z3.And(0 <= j, j < p.n), z3.And(0 <= p.sel(j), p.sel(j) < mask.n, mask.sel(p.sel(j))))))
    ctx.assume(qforall(1, lambda a: z3.Implies(z3.And(0 <= a, a < mask.n, mask.sel(a)), z3.And(0 <= rank(a), rank(a) < p.n, p.sel(rank(a)) == a))))
    return p
