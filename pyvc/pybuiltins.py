"""Exact models of a few stdlib modules that function bodies reach through a module object
(`builtins.max(..., key=...)`, `functools.reduce`, `operator.or_`), and a small symbolic `set` of integers.

Everything here is an exact reading of the documented Python semantics or raises Unsupported; nothing returns an
unconstrained value for an operation it does not model.
"""
import z3
from . import ops
from .ops import Builtin
from .values import Sym, SInt, SBool, Unsupported, PyRaise, zint, zbool, is_intlike


# ------------------------------------------------------------------ builtins --

def _keyed(which):
    def f(ctx, *args, key=None, **kw):
        if key is None:
            return (ops.py_max if which == 'max' else ops.py_min)(ctx, *args, **kw)
        if kw:
            raise Unsupported('%s with default' % which)
        xs = ops.iterate(ctx, args[0]) if len(args) == 1 else list(args)
        if not xs:
            raise PyRaise('ValueError', note='%s() of empty' % which)
        call = ctx.interp.call
        best, bk = xs[0], call(key, [xs[0]], {})
        for x in xs[1:]:
            k = call(key, [x], {})
            c = ops.compare(ctx, '>' if which == 'max' else '<', k, bk)  # strict: the first extremal item wins (CPython)
            if not isinstance(c, bool):
                c = ctx.branch(zbool(c))
            if c:
                best, bk = x, k
        return best
    return f


class BuiltinsModule:
    """`import builtins`: attribute access yields the modelled builtin (max/min additionally accept key=)."""

    def __init__(self, overrides=None):
        self.overrides = dict(overrides or {})

    def sym_getattr(self, ctx, name):
        if name in self.overrides:
            return self.overrides[name]
        if name in ('max', 'min'):
            return _keyed(name)
        if name in ops.BUILTINS or name in ops.TYPE_OF_BUILTIN:
            return Builtin(name)
        raise Unsupported('builtins.%s is not modelled' % name)


# ----------------------------------------------------------------- functools --

class _Partial:
    def __init__(self, f, a, k):
        self.f, self.a, self.k = f, tuple(a), dict(k)

    def __call__(self, ctx, *b, **kk):
        d = dict(self.k)
        d.update(kk)
        return ctx.interp.call(self.f, list(self.a + b), d)


_NOINIT = object()


def _reduce(ctx, f, it, init=_NOINIT):
    xs = ops.iterate(ctx, it)
    if init is _NOINIT:
        if not xs:
            raise PyRaise('TypeError', note='reduce() of empty iterable with no initial value')
        acc, xs = xs[0], xs[1:]
    else:
        acc = init
    for x in xs:
        acc = ctx.interp.call(f, [acc, x], {})
    return acc


class FunctoolsModule:
    def sym_getattr(self, ctx, name):
        if name == 'reduce':
            return _reduce
        if name == 'partial':
            return lambda ctx, f, *a, **k: _Partial(f, a, k)
        raise Unsupported('functools.%s is not modelled' % name)


class OperatorModule:
    _OPS = {'add': '+', 'sub': '-', 'mul': '*', 'or_': '|', 'and_': '&', 'floordiv': '//', 'mod': '%'}

    def sym_getattr(self, ctx, name):
        if name in self._OPS:
            op = self._OPS[name]
            return lambda ctx, a, b: ops.binop(ctx, op, a, b)
        raise Unsupported('operator.%s is not modelled' % name)


# -------------------------------------------------------- small set of ints --

class IntSet(Sym):
    """A Python set of integers built from a CONCRETE number of (possibly symbolic, possibly equal) items.

    Represented as candidates (guard, value): the set is { value_i | guard_i }.  len() is the number of distinct
    guarded values (a term, no forking on equalities); discard/remove/add update the guards; iteration order is
    arbitrary, so `next(iter(s))` / `pop()` return SOME member (a fresh integer constrained to be one)."""

    def __init__(self, items=()):
        self.items = [(zbool(g), v) for g, v in items]

    @staticmethod
    def build(ctx, it=()):
        if isinstance(it, IntSet):
            return IntSet(it.items)
        xs = ops.iterate(ctx, it)
        for x in xs:
            if not is_intlike(x):
                raise Unsupported('IntSet of non-integer item %r' % (x,))
        return IntSet([(True, zint(x)) for x in xs])

    def _first(self, i):
        g, v = self.items[i]
        return z3.And(g, *[z3.Not(z3.And(h, w == v)) for h, w in self.items[:i]])

    def card(self):
        if not self.items:
            return z3.IntVal(0)
        return z3.simplify(z3.Sum(*[z3.If(self._first(i), 1, 0) for i in range(len(self.items))])) if len(self.items) > 1 else z3.simplify(z3.If(self._first(0), 1, 0))

    def member(self, x):
        return z3.Or(*[z3.And(g, v == x) for g, v in self.items]) if self.items else z3.BoolVal(False)

    def length(self, ctx):
        c = self.card()
        return c.as_long() if z3.is_int_value(c) else SInt(c)

    def truth(self, ctx):
        return z3.simplify(z3.Or(*[g for g, v in self.items])) if self.items else False

    def contains(self, ctx, x):
        if not is_intlike(x):
            return False
        return SBool(z3.simplify(self.member(zint(x))))

    def isinstance_(self, ctx, types):
        return set in types

    def _discard(self, ctx, x):
        if is_intlike(x):
            xv = zint(x)
            self.items = [(z3.simplify(z3.And(g, v != xv)), v) for g, v in self.items]

    def _some(self, ctx, what):
        if not ctx.branch(self.truth(ctx)):
            raise PyRaise('StopIteration' if what == 'next' else 'KeyError', note='empty set')
        v = ctx.int('some-member', report=False)
        ctx.assume(self.member(v), axiom='set iteration order is arbitrary: next(iter(s)) / s.pop() is SOME member of s')
        return v

    def getattr(self, ctx, name):
        if name == 'discard':
            return lambda ctx, x: self._discard(ctx, x)
        if name == 'remove':
            def remove(ctx, x):
                if not is_intlike(x) or not ctx.branch(self.member(zint(x))):
                    raise PyRaise('KeyError')
                self._discard(ctx, x)
            return remove
        if name == 'add':
            def add(ctx, x):
                if not is_intlike(x):
                    raise Unsupported('IntSet.add of %r' % (x,))
                self.items.append((z3.BoolVal(True), zint(x)))
            return add
        if name == 'pop':
            def pop(ctx):
                v = self._some(ctx, 'pop')
                self._discard(ctx, SInt(v))
                return SInt(v)
            return pop
        if name == 'copy':
            return lambda ctx: IntSet(self.items)
        raise Unsupported('set.%s on a symbolic set of ints' % name)

    def sym_iter(self, ctx):
        return _IntSetIter(self)

    def iterate(self, ctx):
        c = self.card()
        if z3.is_int_value(c) and c.as_long() == 0:
            return []
        raise Unsupported('iteration over a symbolic set of ints (order and multiplicity unknown)')

    def sym_max(self, ctx):
        return self._extreme(ctx, True)

    def sym_min(self, ctx):
        return self._extreme(ctx, False)

    def _extreme(self, ctx, mx):
        if not ctx.branch(self.truth(ctx)):
            raise PyRaise('ValueError', note='max()/min() of an empty set')
        v = ctx.int('extreme-member', report=False)
        ctx.assume(z3.And(self.member(v), *[z3.Implies(g, (w <= v) if mx else (w >= v)) for g, w in self.items]))
        return SInt(v)


class _IntSetIter:
    def __init__(self, s):
        self.s, self.used = s, False

    def sym_next(self, ctx):
        if self.used:
            raise Unsupported('second next() on the iterator of a symbolic set')
        self.used = True
        return SInt(self.s._some(ctx, 'next'))


def set_builtin(ctx, it=()):
    """builtins.set: concrete when every item is concrete, IntSet when integers are symbolic."""
    if isinstance(it, IntSet):
        return IntSet(it.items)
    xs = ops.iterate(ctx, it)
    if ops.has_sym(xs):
        return IntSet.build(ctx, xs)
    return set(xs)


def iter_builtin(ctx, x):
    if hasattr(x, 'sym_iter'):
        return x.sym_iter(ctx)
    return ops.py_iter(ctx, x)


# ------------------------------------------- floor division in characteristic form (L-DIVMOD) --

def divmod_char(ctx, a, b):
    """Python divmod(a, b) of integers for b != 0 (nothing is said when b == 0), as fresh (q, r) with the
    characteristic property  a == b*q + r  and  0 <= r < b  (b > 0)  /  b < r <= 0  (b < 0).
    The pair is unique (L-DIVMOD, DESIGN 2.6), so this is exact; the product form is what nonlinear solvers handle
    well, unlike nested div/mod terms.  One pair per distinct (a, b) term pair and path."""
    a, b = z3.simplify(zint(a)), z3.simplify(zint(b))
    if z3.is_int_value(a) and z3.is_int_value(b):
        q, r = divmod(a.as_long(), b.as_long())
        return z3.IntVal(q), z3.IntVal(r)
    cache = ctx.ghost.setdefault('divmod_char', {})
    key = (a.get_id(), b.get_id())
    if key not in cache:
        q, r = ctx.int('quot', report=False), ctx.int('rem', report=False)
        ctx.assume(z3.Implies(b != 0, z3.And(a == b * q + r, z3.If(b > 0, z3.And(0 <= r, r < b), z3.And(b < r, r <= 0)))),
                   axiom='L-DIVMOD: (q, r) = divmod(a, b) is the unique pair with a == b*q + r and r between 0 (incl.) and b (excl.)')
        cache[key] = (q, r, a, b)  # keep the terms alive (ids are only unique among live terms)
    return cache[key][0], cache[key][1]


def divmod_builtin(ctx, a, b):
    if is_intlike(a) and is_intlike(b) and (isinstance(a, Sym) or isinstance(b, Sym)):
        if not ctx.branch(zint(b) != 0):
            raise PyRaise('ZeroDivisionError')
        q, r = divmod_char(ctx, a, b)
        return (SInt(q), SInt(r))
    return ops.py_divmod(ctx, a, b)
