"""numpy reduced to METADATA: an `NArr` is an ndarray of concrete rank with symbolic axis lengths (z3 Int) and a
symbolic element kind (0 bool, 1 int, 2 float, 3 complex).  Every function of `NumpyShape` is an exact external
axiom about the SHAPE and KIND of what the numpy function returns (and about when it raises for shape reasons);
nothing is said about element values.  Each axiom is cross-checked natively against the real numpy on random small
arrays (native/axioms_c06b.py).  Anything not listed raises Unsupported (the run is then undecided, never silently
fresh).
"""
import z3
from .values import Sym, SInt, SBool, SOpaque, PyRaise, Unsupported, BoundMethod, zint, is_intlike
from .ops import Builtin

BOOL, INT, FLOAT, COMPLEX = 0, 1, 2, 3
KIND_NAMES = ['bool', 'int', 'float', 'complex']


def simp(x):
    return z3.simplify(x) if z3.is_expr(x) else z3.IntVal(x)


def zmax(a, b):
    a, b = simp(a), simp(b)
    if z3.is_int_value(a) and z3.is_int_value(b):
        return z3.IntVal(max(a.as_long(), b.as_long()))
    return z3.If(a >= b, a, b)


def prod(xs):
    r = z3.IntVal(1)
    for x in xs:
        r = r * x
    return simp(r)


class NDType(SOpaque):
    """numpy dtype / nutils dtype, reduced to its kind.  Compares against the Python types bool/int/float/complex."""

    def __init__(self, kind):
        super().__init__('dtype')
        self.kind = simp(kind)

    def compare(self, ctx, op, other, reflected):
        if op in ('==', '!='):
            k = kind_of(other, none_ok=True)
            if k is None:
                return NotImplemented
            e = z3.simplify(self.kind == k)
            if op == '!=':
                e = z3.simplify(z3.Not(e))
            return z3.is_true(e) if (z3.is_true(e) or z3.is_false(e)) else SBool(e)
        return NotImplemented

    def getattr(self, ctx, name):
        if name == 'kind':
            raise Unsupported('dtype.kind letter')
        return super().getattr(ctx, name)

    def __repr__(self):
        return 'NDType(%s)' % self.kind


def kind_of(x, none_ok=False):
    if isinstance(x, NDType):
        return x.kind
    if isinstance(x, Builtin) and x.name in KIND_NAMES:
        return z3.IntVal(KIND_NAMES.index(x.name))
    if x in (bool, int, float, complex):
        return z3.IntVal([bool, int, float, complex].index(x))
    if isinstance(x, str) and x in ('bool', 'int64', 'float64', 'complex128'):
        return z3.IntVal(['bool', 'int64', 'float64', 'complex128'].index(x))
    if none_ok:
        return None
    raise Unsupported('dtype %r' % (x,))


def as_len(x):
    """an axis length given as python int / SInt / 0-d integer"""
    if isinstance(x, bool):
        raise Unsupported('bool as a length')
    if is_intlike(x):
        return simp(zint(x))
    raise Unsupported('length %r' % (x,))


class NArr(Sym):
    def __init__(self, shape, kind, label='array'):
        self.shape = tuple(simp(s) for s in shape)
        self.kind = simp(kind)
        self.label = label

    @property
    def ndim(self):
        return len(self.shape)

    def truth(self, ctx):
        raise Unsupported('truth value of an array')

    def isinstance_(self, ctx, types):
        return any(getattr(t, '__name__', None) == 'ndarray' for t in types)

    def getattr(self, ctx, name):
        if name == 'shape':
            return tuple(SInt(s) for s in self.shape)
        if name == 'ndim':
            return self.ndim
        if name == 'dtype':
            return NDType(self.kind)
        if name == 'size':
            return SInt(prod(self.shape))
        if name == 'strides':
            return tuple(SOpaque('stride') for _ in self.shape)
        if name in ('reshape', 'astype', 'nonzero', 'fill', 'sum', 'ravel'):
            return BoundMethod(self, (lambda nm: lambda ctx, o, *a, **k: getattr(o, 'm_' + nm)(ctx, *a, **k))(name), name)
        if name == 'T':
            return NArr(self.shape[::-1], self.kind)
        raise Unsupported('ndarray.%s is not modelled (metadata model)' % name)

    # -- methods
    def m_reshape(self, ctx, *shape, **kw):
        if kw:
            raise Unsupported('reshape keywords')
        if len(shape) == 1 and isinstance(shape[0], (tuple, list)):
            shape = tuple(shape[0])
        new = [as_len(s) for s in shape]
        for s in new:
            if z3.is_int_value(s) and s.as_long() < 0:
                raise Unsupported('reshape with -1')
        ctx.used_axioms.add('numpy reshape(a, s): result shape s if all s_i >= 0 and prod(s) == a.size, else ValueError')
        ok = z3.And([s >= 0 for s in new] + [prod(new) == prod(self.shape)])
        if not ctx.branch(ok):
            raise PyRaise('ValueError', note='cannot reshape array of size %s into shape %s' % (prod(self.shape), new))
        return NArr(new, self.kind)

    def m_ravel(self, ctx):
        return NArr([prod(self.shape)], self.kind)

    def m_astype(self, ctx, dtype, copy=True):
        ctx.used_axioms.add('numpy astype(dtype): same shape, kind of dtype')
        return NArr(self.shape, kind_of(dtype))

    def m_nonzero(self, ctx):
        return np_nonzero(ctx, self)

    def m_fill(self, ctx, v):
        return None

    def m_sum(self, ctx, axis=None):
        return np_reduce('sum')(ctx, self, axis=axis)

    # -- indexing
    def getitem(self, ctx, idx):
        return index_result(ctx, self, idx)

    def setitem(self, ctx, idx, value):
        tgt = index_result(ctx, self, idx)
        ctx.used_axioms.add('numpy a[idx] = v: v must broadcast to the shape of a[idx], else ValueError')
        require_broadcastable_to(ctx, value, tgt.shape, 'could not broadcast input array into the indexed shape')

    def binop(self, ctx, op, other, reflected):
        if op in ('+', '*', '-'):
            ctx.used_axioms.add('numpy a op b: shape by broadcasting (ValueError if incompatible), kind = max kind (+, *, -)')
            if isinstance(other, NArr):
                sh = broadcast(ctx, self.shape, other.shape)
                return NArr(sh, zmax(self.kind, other.kind))
            if is_intlike(other) and not isinstance(other, bool):
                return NArr(self.shape, zmax(self.kind, INT))
            if isinstance(other, float):
                return NArr(self.shape, zmax(self.kind, FLOAT))
            return NotImplemented
        if op in ('//', '%') and isinstance(other, NArr):
            a, b = (other, self) if reflected else (self, other)
            return ufunc('floor_divide' if op == '//' else 'mod')(ctx, a, b)
        if op == '/':
            if isinstance(other, NArr):
                return NArr(broadcast(ctx, self.shape, other.shape), zmax(zmax(self.kind, other.kind), FLOAT))
            if is_intlike(other) or isinstance(other, float):
                return NArr(self.shape, zmax(self.kind, FLOAT))
        return NotImplemented

    def unop(self, ctx, op):
        if op == '-':
            return ufunc('negative')(ctx, self)
        raise Unsupported('unary %s on an array' % op)

    def compare(self, ctx, op, other, reflected):
        raise Unsupported('comparison of arrays')

    def length(self, ctx):
        if not self.shape:
            raise PyRaise('TypeError', note='len() of unsized object')
        return SInt(self.shape[0])

    def __repr__(self):
        return 'NArr%s' % (tuple(str(s) for s in self.shape),)


def broadcast(ctx, a, b):
    """numpy broadcasting of two shapes (right aligned); ValueError if some pair is neither equal nor contains a 1"""
    n = max(len(a), len(b))
    a = (z3.IntVal(1),) * (n - len(a)) + tuple(a)
    b = (z3.IntVal(1),) * (n - len(b)) + tuple(b)
    out = []
    for x, y in zip(a, b):
        x, y = simp(x), simp(y)
        if z3.is_int_value(x) and x.as_long() == 1:
            out.append(y)
        elif z3.is_int_value(y) and y.as_long() == 1:
            out.append(x)
        elif x.eq(y):
            out.append(x)
        else:
            if not ctx.branch(z3.Or(x == y, x == 1, y == 1)):
                raise PyRaise('ValueError', note='operands could not be broadcast together: %s vs %s' % (x, y))
            out.append(simp(z3.If(x == 1, y, x)))
    return tuple(out)


def require_broadcastable_to(ctx, value, shape, note):
    if not isinstance(value, NArr):
        if is_intlike(value) or isinstance(value, (float, complex, bool)):
            return
        raise Unsupported('array store of %r' % (value,))
    vs = value.shape
    if len(vs) > len(shape):
        lead = vs[:len(vs) - len(shape)]
        if not ctx.branch(z3.And([x == 1 for x in lead]) if lead else True):
            raise PyRaise('ValueError', note=note)
        vs = vs[len(vs) - len(shape):]
    tail = shape[len(shape) - len(vs):]
    conds = []
    for x, y in zip(vs, tail):
        x, y = simp(x), simp(y)
        if x.eq(y) or (z3.is_int_value(x) and x.as_long() == 1):
            continue
        conds.append(z3.Or(x == y, x == 1))
    if conds and not ctx.branch(z3.And(conds)):
        raise PyRaise('ValueError', note=note)


def slice_len(ctx, s, n):
    """length of range(*s.indices(n)) for step None/1 (CPython clamping)"""
    if not (s.step is None or (isinstance(s.step, int) and s.step == 1)):
        raise Unsupported('slice with a step')

    def clamp(x, default):
        if x is None:
            return default
        v = as_len_signed(x)
        v = z3.If(v < 0, v + n, v)
        return z3.If(v < 0, 0, z3.If(v > n, n, v))
    lo, hi = clamp(s.start, z3.IntVal(0)), clamp(s.stop, n)
    return simp(z3.If(hi > lo, hi - lo, 0))


def as_len_signed(x):
    if isinstance(x, bool):
        raise Unsupported('bool in a slice')
    if is_intlike(x):
        return zint(x)
    raise Unsupported('slice bound %r' % (x,))


def index_result(ctx, a, idx):
    """shape of a[idx]: basic indexing (ints, slices, Ellipsis, newaxis) plus at most ONE integer index array"""
    ctx.used_axioms.add('numpy indexing a[idx]: ints drop an axis (IndexError out of range), slices clamp, None inserts a unit axis, '
                        '... fills, one integer index array replaces its axis by the index shape')
    if not isinstance(idx, tuple):
        idx = (idx,)
    idx = list(idx)
    nell = sum(1 for i in idx if i is Ellipsis)
    if nell > 1:
        raise PyRaise('IndexError', note='an index can only have a single ellipsis')
    consuming = sum(1 for i in idx if i is not Ellipsis and i is not None)
    if consuming > a.ndim:
        raise PyRaise('IndexError', note='too many indices for array')
    if nell:
        k = idx.index(Ellipsis)
        idx[k:k + 1] = [slice(None)] * (a.ndim - consuming)
    else:
        idx += [slice(None)] * (a.ndim - consuming)
    out = []
    axis = 0
    nadv = 0
    for i in idx:
        if i is None:
            out.append(z3.IntVal(1))
            continue
        n = a.shape[axis]
        axis += 1
        if isinstance(i, slice):
            out.append(slice_len(ctx, i, n))
        elif isinstance(i, NArr):
            nadv += 1
            if nadv > 1:
                raise Unsupported('more than one index array')
            # element values are not modelled: in-range is the caller's obligation (IndexError otherwise)
            out.extend(i.shape)
        elif is_intlike(i) and not isinstance(i, bool):
            v = zint(i)
            if not ctx.branch(z3.And(-n <= v, v < n)):
                raise PyRaise('IndexError', note='index %s is out of bounds for axis with size %s' % (v, n))
        else:
            raise Unsupported('index %r' % (i,))
    return NArr(out, a.kind)


def np_nonzero(ctx, a):
    """numpy.nonzero(a) for 1-d a: one index array whose length is the number of nonzero entries (ghost `count`)"""
    if a.ndim != 1:
        raise Unsupported('nonzero of rank %d' % a.ndim)
    ctx.used_axioms.add('numpy.nonzero(w) for 1-d w: a 1-tuple holding an int array of length count_nonzero(w), 0 <= count <= len(w)')
    c = getattr(a, 'count_nonzero', None)
    if c is None:
        c = a.count_nonzero = z3.Int(ctx.name('count_nonzero'))
        ctx.assume(z3.And(0 <= c, c <= a.shape[0]))
    return (NArr([c], INT),)


def np_reduce(name):
    def f(ctx, a, axis=None, **kw):
        if kw:
            raise Unsupported('numpy.%s keywords %s' % (name, sorted(kw)))
        if not isinstance(a, NArr):
            raise Unsupported('numpy.%s of %r' % (name, a))
        ctx.used_axioms.add('numpy.sum/prod/any/all(a, axis=k): shape of a without axis k; kind: any/all bool, sum/prod of bool -> int, else kind of a')
        kind = z3.IntVal(BOOL) if name in ('any', 'all') else simp(z3.If(a.kind == BOOL, INT, a.kind))
        if axis is None:
            return NArr([], kind)
        if not isinstance(axis, int):
            raise Unsupported('symbolic axis')
        if not -a.ndim <= axis < a.ndim:
            raise PyRaise('ValueError', note='axis %d is out of bounds for array of dimension %d' % (axis, a.ndim))
        k = axis % a.ndim
        return NArr(a.shape[:k] + a.shape[k + 1:], kind)
    return f


def parse_einsum(fmt, ranks):
    """explicit-mode einsum format with optional leading '...' per operand"""
    if '->' not in fmt:
        raise Unsupported('implicit einsum')
    lhs, rhs = fmt.split('->')
    ops_ = lhs.split(',')
    if len(ops_) != len(ranks):
        raise PyRaise('ValueError', note='einsum: number of operands')
    return ops_, rhs


def np_einsum(ctx, fmt, *args, **kw):
    if kw or not isinstance(fmt, str):
        raise Unsupported('einsum form')
    ctx.used_axioms.add('numpy.einsum(fmt, *ops) (explicit mode): a label shared by operands broadcasts (equal lengths or 1, else ValueError); '
                        'a label repeated within one operand takes a diagonal (lengths equal, a leading 0 is overridden); the output has the lengths of its labels, '
                        'labels missing from the output are summed; `...` stands for the leading axes; kind of the operands')
    ops_, rhs = parse_einsum(fmt, [a.ndim for a in args])
    lengths = {}
    ell = None
    for spec, a in zip(ops_, args):
        if not isinstance(a, NArr):
            raise Unsupported('einsum operand %r' % (a,))
        if spec.startswith('...'):
            labels = spec[3:]
            nl = a.ndim - len(labels)
            if nl < 0:
                raise PyRaise('ValueError', note='einsum: too many subscripts')
            lead = a.shape[:nl]
            if ell is None:
                ell = lead
            else:
                ell = broadcast(ctx, ell, lead)
            dims = a.shape[nl:]
        else:
            if '.' in spec:
                raise Unsupported('ellipsis in the middle')
            labels = spec
            if len(labels) != a.ndim:
                raise PyRaise('ValueError', note='einsum: operand has %d axes, subscripts %r' % (a.ndim, spec))
            dims = a.shape
        own = {}
        for l, d in zip(labels, dims):
            if l in own:
                # a label repeated WITHIN one operand (diagonal): numpy keeps a running length L; a further axis of length d is
                # accepted if L == 0 (then L := d) or d == L  [numpy's combined-dims rule, cross-checked natively]
                L = own[l]
                if L.eq(d):
                    continue
                if not ctx.branch(z3.Or(L == 0, L == d)):
                    raise PyRaise('ValueError', note='einsum: dimensions for collapsing index %s do not match (%s != %s)' % (l, L, d))
                own[l] = simp(z3.If(L == 0, d, L))
            else:
                own[l] = d
        for l, d in own.items():
            if l in lengths:
                # the same label in DIFFERENT operands broadcasts (equal, or one of them 1)
                lengths[l] = broadcast(ctx, (lengths[l],), (d,))[0]
            else:
                lengths[l] = d
    out = []
    if rhs.startswith('...'):
        out += list(ell or ())
        rhs = rhs[3:]
    elif ell:
        raise Unsupported('einsum summing over the ellipsis axes')
    if len(set(rhs)) != len(rhs):
        raise PyRaise('ValueError', note='einsum: output label repeated')
    for l in rhs:
        if l not in lengths:
            raise PyRaise('ValueError', note='einsum: output label %s not in any operand' % l)
        out.append(lengths[l])
    kind = args[0].kind
    for a in args[1:]:
        kind = zmax(kind, a.kind)
    return NArr(out, kind)


def np_transpose(ctx, a, axes=None):
    ctx.used_axioms.add('numpy.transpose(a, axes): result.shape[i] == a.shape[axes[i]]; axes must be a permutation (ValueError)')
    if axes is None:
        return NArr(a.shape[::-1], a.kind)
    axes = tuple(axes)
    if not all(isinstance(x, int) and not isinstance(x, bool) for x in axes):
        raise Unsupported('symbolic axes')
    if len(axes) != a.ndim:
        raise PyRaise('ValueError', note="axes don't match array")
    if any(not -a.ndim <= x < a.ndim for x in axes):
        raise PyRaise('ValueError', note='axis out of bounds')
    norm = [x % a.ndim for x in axes]
    if len(set(norm)) != len(norm):
        raise PyRaise('ValueError', note='repeated axis in transpose')
    return NArr([a.shape[x] for x in norm], a.kind)


def np_moveaxis(ctx, a, src, dst):
    ctx.used_axioms.add('numpy.moveaxis(a, s, d): axis s is moved to position d, the others keep their order')
    if not (isinstance(src, int) and isinstance(dst, int)):
        raise Unsupported('moveaxis with sequences')
    if not (-a.ndim <= src < a.ndim and -a.ndim <= dst < a.ndim):
        raise PyRaise('ValueError', note='moveaxis: axis out of bounds')
    src, dst = src % a.ndim, dst % a.ndim
    order = [i for i in range(a.ndim) if i != src]
    order.insert(dst, src)
    return NArr([a.shape[i] for i in order], a.kind)


def np_take(ctx, a, indices, axis=None, **kw):
    if kw:
        raise Unsupported('take keywords')
    ctx.used_axioms.add('numpy.take(a, idx, axis=k): shape a.shape[:k] + idx.shape + a.shape[k+1:], kind of a')
    if axis is None or not isinstance(axis, int):
        raise Unsupported('take without a concrete axis')
    if not -a.ndim <= axis < a.ndim:
        raise PyRaise('ValueError', note='take: axis out of bounds')
    k = axis % a.ndim
    ish = indices.shape if isinstance(indices, NArr) else ()
    if not isinstance(indices, NArr) and not is_intlike(indices):
        raise Unsupported('take indices %r' % (indices,))
    return NArr(a.shape[:k] + tuple(ish) + a.shape[k + 1:], a.kind)


def np_repeat(ctx, a, n, axis=None):
    ctx.used_axioms.add('numpy.repeat(a, n, axis=k) with scalar n >= 0: axis k gets length n * a.shape[k]')
    if axis is None or not isinstance(axis, int):
        raise Unsupported('repeat without a concrete axis')
    k = axis % a.ndim
    nn = as_len(n)
    if not ctx.branch(nn >= 0):
        raise PyRaise('ValueError', note='repeats may not contain negative values')
    return NArr(a.shape[:k] + (simp(nn * a.shape[k]),) + a.shape[k + 1:], a.kind)


def np_ndarray(ctx, shape=None, dtype=None, buffer=None, strides=None, **kw):
    """numpy.ndarray(buffer=b, dtype, shape, strides): a view with the given shape; ValueError when the buffer is not
    contiguous -- whether it is cannot be known from the metadata, so both outcomes are explored."""
    if kw or shape is None:
        raise Unsupported('ndarray(...) form')
    ctx.used_axioms.add('numpy.ndarray(buffer=b, dtype, shape, strides): an array of that shape and dtype, or ValueError (non-contiguous buffer)')
    sh = [as_len(s) for s in shape]
    if strides is not None and len(tuple(strides)) != len(sh):
        raise PyRaise('ValueError', note='strides, if given, must be the same length as shape')
    if buffer is not None:
        if not ctx.branch(z3.Bool(ctx.name('buffer-is-contiguous'))):
            raise PyRaise('ValueError', note='ndarray is not contiguous')
    return NArr(sh, kind_of(dtype) if dtype is not None else FLOAT)


def np_empty(ctx, shape, dtype=None, **kw):
    ctx.used_axioms.add('numpy.empty/zeros(shape, dtype): an array of that shape (lengths >= 0, else ValueError) and dtype (default float)')
    if isinstance(shape, (tuple, list)):
        sh = [as_len(s) for s in shape]
    else:
        sh = [as_len(shape)]
    if sh and not ctx.branch(z3.And([s >= 0 for s in sh])):
        raise PyRaise('ValueError', note='negative dimensions are not allowed')
    return NArr(sh, kind_of(dtype) if dtype is not None else FLOAT)


def np_empty_like(ctx, a, dtype=None):
    return NArr(a.shape, kind_of(dtype) if dtype is not None else a.kind)


def np_arange(ctx, n, *rest, **kw):
    if rest or kw:
        raise Unsupported('arange form')
    ctx.used_axioms.add('numpy.arange(n) for an integer n: int array of length max(n, 0)')
    nn = as_len(n)
    return NArr([simp(z3.If(nn > 0, nn, 0))], INT)


def np_cumsum(ctx, a, **kw):
    if kw:
        raise Unsupported('cumsum keywords')
    ctx.used_axioms.add('numpy.cumsum(seq) for a 1-d sequence: same length; kind int for bool/int input')
    if isinstance(a, NArr):
        if a.ndim != 1:
            raise Unsupported('cumsum of rank %d' % a.ndim)
        return NArr(a.shape, simp(z3.If(a.kind == BOOL, INT, a.kind)))
    if isinstance(a, SeqOfScalars):
        return NArr([a.n], zmax(a.kind, INT))
    raise Unsupported('cumsum of %r' % (a,))


class SeqOfScalars:
    """a Python list built as [x0, .., *array]: only its length and kind are known"""

    def __init__(self, n, kind):
        self.n, self.kind = simp(n), simp(kind)


def np_searchsorted(ctx, a, v, side='left', sorter=None):
    ctx.used_axioms.add('numpy.searchsorted(a, v, side, sorter): a 1-d, result has the shape of v, integer kind; sorter must have the length of a (ValueError)')
    if not isinstance(a, NArr) or a.ndim != 1:
        raise PyRaise('ValueError', note='searchsorted: object too deep / not 1-d')
    if side not in ('left', 'right'):
        raise PyRaise('ValueError', note='side')
    if sorter is not None:
        if not isinstance(sorter, NArr) or sorter.ndim != 1:
            raise PyRaise('ValueError', note='sorter must be 1-d')
        if not sorter.shape[0].eq(a.shape[0]) and not ctx.branch(sorter.shape[0] == a.shape[0]):
            raise PyRaise('ValueError', note='sorter.size must equal a.size')
    vs = v.shape if isinstance(v, NArr) else ()
    return NArr(vs, INT)


def np_argsort(ctx, a, axis=-1, kind=None):
    ctx.used_axioms.add('numpy.argsort(a, axis): shape of a, integer kind')
    if not isinstance(axis, int) or not -a.ndim <= axis < a.ndim:
        raise PyRaise('ValueError', note='argsort axis')
    return NArr(a.shape, INT)


def np_choose(ctx, index, choices):
    ctx.used_axioms.add('numpy.choose(index, choices) with an ndarray choices: result shape = broadcast(index.shape, choices.shape[1:]), kind of choices')
    if not isinstance(choices, NArr) or choices.ndim < 1:
        raise Unsupported('choose from %r' % (choices,))
    ish = index.shape if isinstance(index, NArr) else ()
    return NArr(broadcast(ctx, ish, choices.shape[1:]), choices.kind)


def np_det(ctx, a):
    ctx.used_axioms.add('numpy.linalg.det / inv(a): last two axes must be equal (LinAlgError), det drops them, inv keeps the shape; kind float or complex')
    if a.ndim < 2:
        raise PyRaise('ValueError', note='at least two-dimensional')
    if not a.shape[-1].eq(a.shape[-2]) and not ctx.branch(a.shape[-1] == a.shape[-2]):
        raise PyRaise('ValueError', note='last 2 dimensions of the array must be square')
    return NArr(a.shape[:-2], zmax(a.kind, FLOAT))


def np_inv(ctx, a):
    """numpy.linalg.inv"""
    np_det(ctx, a)
    return NArr(a.shape, zmax(a.kind, FLOAT))


def nutils_numeric_inv(ctx, a):
    ctx.used_axioms.add('nutils numeric.inv(a): never raises LinAlgError (nan entries instead); result has the shape of a, kind float or complex')
    return NArr(a.shape, zmax(a.kind, FLOAT))


def np_not_equal(ctx, a, b, out=None):
    ctx.used_axioms.add('numpy.not_equal(a, b, out=o): broadcast(a, b) must broadcast to o.shape (ValueError)')
    sh = broadcast(ctx, a.shape if isinstance(a, NArr) else (), b.shape if isinstance(b, NArr) else ())
    r = NArr(sh, BOOL)
    if out is not None:
        require_broadcastable_to(ctx, r, out.shape, 'non-broadcastable output operand')
        if len(sh) != len(out.shape) or any(not x.eq(y) for x, y in zip(sh, out.shape)):
            if not ctx.branch(z3.And([x == y for x, y in zip(sh, out.shape)]) if len(sh) == len(out.shape) else False):
                raise PyRaise('ValueError', note='non-broadcastable output operand')
        return out
    return r


# ---- element-wise ufuncs: result KIND table (numpy 2 promotion on the four kinds; `T` = TypeError), cross-checked natively
T = 'T'
UFUNC2 = {
    'greater': [[0] * 4] * 4, 'less': [[0] * 4] * 4, 'equal': [[0] * 4] * 4,
    'minimum': [[0, 1, 2, 3], [1, 1, 2, 3], [2, 2, 2, 3], [3, 3, 3, 3]], 'maximum': [[0, 1, 2, 3], [1, 1, 2, 3], [2, 2, 2, 3], [3, 3, 3, 3]],
    'floor_divide': [[1, 1, 2, T], [1, 1, 2, T], [2, 2, 2, T], [T, T, T, T]], 'mod': [[1, 1, 2, T], [1, 1, 2, T], [2, 2, 2, T], [T, T, T, T]],
    'power': [[1, 1, 2, 3], [1, 1, 2, 3], [2, 2, 2, 3], [3, 3, 3, 3]], 'arctan2': [[2, 2, 2, T], [2, 2, 2, T], [2, 2, 2, T], [T, T, T, T]],
}
UFUNC1 = {
    'negative': [T, 1, 2, 3], 'absolute': [0, 1, 2, 2], 'logical_not': [0, 0, 0, 0], 'real': [0, 1, 2, 2], 'imag': [0, 1, 2, 2], 'conjugate': [1, 1, 2, 3],
    'sign': [T, 1, 2, 3], 'reciprocal': [1, 1, 2, 3],
}
for _n in ('sin', 'cos', 'tan', 'arcsin', 'arccos', 'arctan', 'sinc', 'sinh', 'cosh', 'tanh', 'arctanh', 'exp', 'log'):
    UFUNC1[_n] = [2, 2, 2, 3]


def _ckind(ctx, a):
    k = a.kind if isinstance(a, NArr) else z3.IntVal(INT) if is_intlike(a) and not isinstance(a, bool) else None
    if k is None:
        raise Unsupported('element-wise function on %r' % (a,))
    k = simp(k)
    if z3.is_int_value(k):
        return k.as_long()
    for v in (BOOL, INT, FLOAT):  # the kind table is ground: a symbolic kind is decided by forking over the four kinds
        if ctx.branch(k == v):
            return v
    if ctx.branch(k == COMPLEX):
        return COMPLEX
    raise Unsupported('array kind outside bool/int/float/complex')


def ufunc(name):
    def f(ctx, *args, **kw):
        if kw:
            raise Unsupported('ufunc keywords')
        ctx.used_axioms.add('numpy element-wise functions: shape by broadcasting, result kind by the ground table pyvc/npshape.py:UFUNC1/UFUNC2 (TypeError where numpy has no loop)')
        if name in UFUNC1 and len(args) == 1:
            k = UFUNC1[name][_ckind(ctx, args[0])]
            sh = args[0].shape
        elif name in UFUNC2 and len(args) == 2:
            k = UFUNC2[name][_ckind(ctx, args[0])][_ckind(ctx, args[1])]
            sh = broadcast(ctx, args[0].shape if isinstance(args[0], NArr) else (), args[1].shape if isinstance(args[1], NArr) else ())
        else:
            raise Unsupported('numpy.%s with %d operands' % (name, len(args)))
        if k == T:
            raise PyRaise('TypeError', note='ufunc %s not supported for the input types' % name)
        return NArr(sh, k)
    return f


def np_array(ctx, a, dtype=None, **kw):
    if kw:
        raise Unsupported('numpy.array keywords')
    ctx.used_axioms.add('numpy.array(a, dtype=t): shape of a, kind of t')
    if not isinstance(a, NArr):
        raise Unsupported('numpy.array(%r)' % (a,))
    return NArr(a.shape, kind_of(dtype) if dtype is not None else a.kind)


class _NS:
    def __init__(self, table, what):
        self.table, self.what = table, what

    def sym_getattr(self, ctx, name):
        if name in self.table:
            return self.table[name]
        raise Unsupported('%s.%s is not modelled (metadata model)' % (self.what, name))


class NumpyShape(_NS):
    def __init__(self):
        super().__init__({
            'newaxis': None, 'ndarray': np_ndarray, 'repeat': np_repeat, 'transpose': np_transpose, 'einsum': np_einsum,
            'sum': np_reduce('sum'), 'prod': np_reduce('prod'), 'any': np_reduce('any'), 'all': np_reduce('all'),
            'take': np_take, 'arange': np_arange, 'nonzero': np_nonzero, 'cumsum': np_cumsum, 'searchsorted': np_searchsorted,
            'argsort': np_argsort, 'moveaxis': np_moveaxis, 'choose': np_choose, 'empty': np_empty, 'zeros': np_empty,
            'empty_like': np_empty_like, 'not_equal': np_not_equal,
            'linalg': _NS({'det': np_det, 'inv': np_inv}, 'numpy.linalg'), 'array': np_array,
            **{n: ufunc(n) for n in list(UFUNC1) + list(UFUNC2)},
        }, 'numpy')
