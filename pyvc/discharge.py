"""Discharge obligations: one SMT query per obligation, in a process pool.

Back ends, in order: z3 (python API of the z3-solver wheel), /usr/bin/cvc5, /usr/bin/z3 (4.8.12).
`unsat` from any of them proves the obligation; `sat` (with a model) from z3 refutes it;
everything else is *unknown* and never reported as a violation.
"""
import multiprocessing, os, subprocess, tempfile, time, shutil

NPROC = int(os.environ.get('VERIF_NPROC', '16'))


def _solve_z3(smt2, timeout_ms, want_model=True, ematching_only=False):
    import z3
    c = z3.Context()
    s = z3.Solver(ctx=c)
    s.set('timeout', timeout_ms)
    if ematching_only:
        s.set('smt.mbqi', False)
    s.from_string(smt2)
    t0 = time.time()
    # z3's own timeout is not honoured inside some quantifier-instantiation loops (seen with false quantified goals): a watchdog thread
    # interrupts the context at a hard deadline; the answer is then `unknown` (canceled)
    import threading
    wd = threading.Timer(timeout_ms / 1000.0 * 1.5 + 5, c.interrupt)
    wd.daemon = True
    wd.start()
    # last resort: some z3 loops ignore the interrupt as well; the solving PROCESS then ends itself.  In the pool this breaks the pool, and
    # discharge() re-runs the unanswered queries with every z3 call isolated in a forked child (see _run_pool); there the stuck child just exits.
    wd2 = threading.Timer(timeout_ms / 1000.0 * 1.5 + 25, os._exit, [3])
    wd2.daemon = True
    wd2.start()
    try:
        r = s.check()
    finally:
        wd.cancel()
        wd2.cancel()
    dt = time.time() - t0
    model = None
    if r == z3.sat and want_model:
        m = s.model()
        model = {}
        for d in m.decls():
            try:
                if d.arity() == 0:
                    model[d.name()] = str(m[d])
                else:
                    txt = str(m[d])
                    model[d.name()] = txt if len(txt) < 400 else txt[:400] + '...'
            except Exception:
                pass
    reason = ''
    if r == z3.unknown:
        try:
            reason = s.reason_unknown()
        except Exception:
            pass
    return str(r), dt, model, reason


def _solve_z3_guarded(smt2, timeout_ms):
    """_solve_z3 in a forked child that is KILLED at a hard deadline: z3's own timeout is not honoured inside some
    quantifier-instantiation loops (seen with false quantified goals), and a stuck worker would block the whole check."""
    import pickle, select, signal
    r, w = os.pipe()
    pid = os.fork()
    if pid == 0:
        try:
            os.close(r)
            try:
                res = _solve_z3(smt2, timeout_ms)
            except Exception as e:
                res = ('error', 0.0, None, 'z3 API: %r' % (e,))
            with os.fdopen(w, 'wb') as f:
                pickle.dump(res, f)
        finally:
            os._exit(0)
    os.close(w)
    deadline = timeout_ms / 1000.0 * 1.5 + 10
    t0 = time.time()
    data = b''
    try:
        while True:
            left = deadline - (time.time() - t0)
            if left <= 0:
                break
            ready, _, _ = select.select([r], [], [], left)
            if not ready:
                break
            chunk = os.read(r, 1 << 16)
            if not chunk:
                break
            data += chunk
    finally:
        os.close(r)
    try:
        if data:
            os.waitpid(pid, 0)
            return pickle.loads(data)
    except Exception:
        pass
    try:
        os.kill(pid, signal.SIGKILL)
        os.waitpid(pid, 0)
    except OSError:
        pass
    return 'unknown', time.time() - t0, None, 'hard deadline: z3 did not return within %.0f s (killed)' % deadline


def _solve_cli(cmd, smt2, timeout_s):
    d = tempfile.mkdtemp(prefix='pyvc-', dir=os.environ.get('VERIF_SCRATCH') or None)
    try:
        p = os.path.join(d, 'q.smt2')
        with open(p, 'w') as f:
            f.write(smt2)
            if '(check-sat)' not in smt2:
                f.write('\n(check-sat)\n')
        t0 = time.time()
        try:
            out = subprocess.run(cmd + [p], capture_output=True, text=True, timeout=timeout_s + 5)
            txt = (out.stdout or '').strip().split('\n')[0].strip()
        except subprocess.TimeoutExpired:
            txt = 'unknown'
        return txt, time.time() - t0
    finally:
        shutil.rmtree(d, ignore_errors=True)


def solve_one(task):
    idx, smt2, timeout_ms, fallbacks = task[:4]
    pre = 0.0
    if len(task) > 4 and task[4]:
        # opt-in first pass (contract.ematching_first): quantifier instantiation by E-matching only.  Only `unsat` is used
        # (a proof is a proof whatever the instantiation strategy); anything else falls through to the default strategy.
        try:
            r0, pre, _, _ = _solve_z3(smt2, min(timeout_ms, 5000), want_model=False, ematching_only=True)
            if r0 == 'unsat':
                return idx, 'proved', 'z3-%s (E-matching only)' % _z3ver(), pre, None, ''
        except Exception:
            pass
    try:
        r, dt, model, reason = (_solve_z3_guarded if os.environ.get('VERIF_FORK_GUARD') else _solve_z3)(smt2, timeout_ms)
    except Exception as e:  # parse problem etc.
        return idx, 'error', 'z3', 0.0, None, 'z3 API: %r' % (e,)
    if r == 'error':
        return idx, 'error', 'z3', 0.0, None, reason
    total = dt + pre
    if r == 'unsat':
        return idx, 'proved', 'z3-%s' % _z3ver(), total, None, ''
    if r == 'sat':
        return idx, 'refuted', 'z3-%s' % _z3ver(), total, model, ''
    out = 'z3: unknown (%s)' % reason
    if fallbacks:
        text = smt2 if '(check-sat)' in smt2 else smt2 + '\n(check-sat)\n'
        if os.path.exists('/usr/bin/cvc5'):
            logic_free = text
            r2, dt2 = _solve_cli(['/usr/bin/cvc5', '--lang', 'smt2', '--tlimit=%d' % timeout_ms],
                                 '(set-logic ALL)\n' + logic_free if '(set-logic' not in logic_free else logic_free, timeout_ms / 1000)
            total += dt2
            out += '; cvc5: %s' % r2
            if r2 == 'unsat':
                return idx, 'proved', 'cvc5-1.0.3', total, None, out
            if r2 == 'sat':
                # a refutation without a model: the native replay has to find the failing input
                return idx, 'refuted', 'cvc5-1.0.3 (sat, no model extracted)', total, {}, out
        if os.path.exists('/usr/bin/z3'):
            r3, dt3 = _solve_cli(['/usr/bin/z3', '-T:%d' % max(1, timeout_ms // 1000)], text, timeout_ms / 1000)
            total += dt3
            out += '; z3-4.8.12: %s' % r3
            if r3 == 'unsat':
                return idx, 'proved', 'z3-4.8.12', total, None, out
    return idx, 'unknown', 'none', total, None, out


_ver = None


def _z3ver():
    global _ver
    if _ver is None:
        import z3
        _ver = z3.get_version_string()
    return _ver


def solve_one_guarded(task):
    os.environ['VERIF_FORK_GUARD'] = '1'  # the z3 call runs in a forked grandchild that may crash or be killed without taking the worker down
    return solve_one(task)


def _run_pool(tasks, nproc):
    """Process pool that survives a crashing solver: if a worker dies (z3 can segfault on hard quantified queries) the pool is broken;
    the tasks without a result are then re-run in a second pool in which every z3 call is isolated in its own forked child."""
    from concurrent.futures import ProcessPoolExecutor, as_completed
    from concurrent.futures.process import BrokenProcessPool
    ctx = multiprocessing.get_context('fork')
    done = {}

    def run(fn, todo):
        try:
            with ProcessPoolExecutor(max_workers=min(nproc, len(todo)), mp_context=ctx) as ex:
                futs = [ex.submit(fn, t) for t in todo]
                for f in as_completed(futs):
                    try:
                        r = f.result()
                        done[r[0]] = r
                    except BrokenProcessPool:
                        raise
                    except Exception as e:  # noqa
                        pass
        except BrokenProcessPool:
            return False
        return True
    ok = run(solve_one, tasks)
    todo = [t for t in tasks if t[0] not in done]
    if todo:
        run(solve_one_guarded, todo)
    for t in tasks:
        if t[0] not in done:
            done[t[0]] = (t[0], 'unknown', 'none', 0.0, None, 'solver process died (no answer)')
    return [done[t[0]] for t in tasks]


def discharge(obligations, timeout_ms=20000, fallbacks=True, nproc=None):
    """Fill status/backend/seconds/model of each obligation."""
    tasks = []
    for i, ob in enumerate(obligations):
        try:
            if ob.kind != 'cover' and getattr(getattr(ob, 'contract', None), 'decide_trivial', False):
                # opt-in per contract: a goal that z3.simplify reduces to `true` holds under any hypotheses (no query);
                # the path's cover obligation still checks that the hypotheses are consistent
                import z3
                if z3.is_true(z3.simplify(ob.goal)):
                    ob.status, ob.backend, ob.seconds, ob.model, ob.output = 'proved', 'z3.simplify (goal reduces to true)', 0.0, None, ''
                    continue
            if ob.kind == 'cover':
                tasks.append((i, ob.smt2(), min(timeout_ms, 5000), False))
                continue
            tasks.append((i, ob.smt2(), timeout_ms, fallbacks, bool(getattr(getattr(ob, 'contract', None), 'ematching_first', False))))
        except Exception as e:
            ob.status, ob.output = 'error', 'serialisation: %r' % (e,)
    if not tasks:
        return
    nproc = nproc or NPROC
    if len(tasks) == 1 or nproc == 1:
        results = [solve_one(t) for t in tasks]
    else:
        results = _run_pool(tasks, nproc)
    for idx, status, backend, secs, model, out in results:
        ob = obligations[idx]
        if ob.kind == 'cover':
            # inverted reading: the hypotheses alone must NOT be refutable.  unsat => vacuous path (error);
            # sat or unknown => fine (a quantified hypothesis set is rarely decided `sat`).
            ob.seconds, ob.backend, ob.output = secs, backend, out
            ob.status = 'vacuous' if status == 'proved' else 'proved'
            ob.model = None
            continue
        ob.status, ob.backend, ob.seconds, ob.model, ob.output = status, backend, secs, model, out
