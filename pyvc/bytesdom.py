"""Byte strings, hashlib.sha1 objects and (un)ordered symbolic sequences for the hashing contracts (C17, C18).

Bytes are (length, index -> byte) like Arr1; SHA-1 is idealised: a digest is an opaque 20-byte string determined by
(and, by assumption, determining) the buffer it was computed from.
"""
import z3
from .values import Sym, SBool, SInt, SObj, SOpaque, PyRaise, Unsupported, zint, zbool, is_intlike
from .nparr import Vec, qforall, qexists, I, B

_uid = [0]


def uid():
    _uid[0] += 1
    return _uid[0]


class BytesV(Vec):
    """bytes / encoded str"""

    def __init__(self, n, sel, name='bytes'):
        super().__init__('int', n, sel, name)

    @staticmethod
    def of(x):
        if isinstance(x, BytesV):
            return x
        if isinstance(x, (bytes, bytearray)):
            data = bytes(x)
            def sel(i, data=data):
                r = z3.IntVal(0)
                for k in range(len(data) - 1, -1, -1):
                    r = z3.If(i == k, data[k], r)
                return r
            v = BytesV(z3.IntVal(len(data)), sel, repr(data))
            v.literal = data
            return v
        raise Unsupported('bytes of %r' % (x,))

    @staticmethod
    def fresh_bytes(ctx, name, n=None, nonzero=False, bounded=True):
        if n is None:
            n = ctx.int('len(%s)' % name, report=False)
            ctx.assume(n >= 0)
            from . import nparr
            if nparr.BOUND is not None and bounded:
                ctx.assume(n <= nparr.BOUND)
        a = z3.Array(ctx.name(name), I, I)
        v = BytesV(n, lambda i: z3.Select(a, i), name)
        if nonzero:
            ctx.assume(qforall(1, lambda i: z3.Implies(z3.And(0 <= i, i < n), z3.Select(a, i) != 0)))
        return v

    def havoc(self, ctx, name):
        f = BytesV.fresh_bytes(ctx, name)
        self.n, self._sel = f.n, f._sel
        return self

    def isinstance_(self, ctx, types):
        return bytes in types

    def truth(self, ctx):
        return self.n > 0

    def binop(self, ctx, op, other, reflected):
        if op == '+' and isinstance(other, (BytesV, bytes)):
            o = BytesV.of(other)
            a, b = (o, self) if reflected else (self, o)
            if isinstance(a, Digest) and isinstance(b, Digest):
                return bcat(a, b)  # closed form: may be evaluated under a quantifier (block functions)
            return bcat(a, b, ctx)
        return NotImplemented

    def getattr(self, ctx, name):
        if name == 'hex':
            return lambda ctx: SOpaque('hex')
        return super().getattr(ctx, name)

    def getitem(self, ctx, idx):
        r = super().getitem(ctx, idx)
        if isinstance(idx, slice) and isinstance(r, Vec):
            return BytesV(r.n, r.sel, r.name)
        return r


def bcat(a, b, ctx=None):
    """a + b.  With a ctx the result is a fresh array with defining axioms stated in the coordinates of the parts
    (E-matching friendly: no index arithmetic inside the patterns of the operand reads)."""
    an, asel, bsel = a.n, a.sel, b.sel
    if ctx is None:
        return BytesV(z3.simplify(a.n + b.n), lambda i: z3.If(i < an, asel(i), bsel(i - an)), '(%s+%s)' % (a.name[:12], b.name[:12]))
    r = BytesV.fresh_bytes(ctx, 'cat', n=z3.simplify(a.n + b.n))
    r.parts = getattr(a, 'parts', [a]) + getattr(b, 'parts', [b])  # structural record: r is the concatenation of these
    ctx.assume(qforall(1, lambda k: z3.Implies(z3.And(0 <= k, k < an), r.sel(k) == asel(k))))
    lit = getattr(b, 'literal', None)
    if lit is not None:
        for j, byte in enumerate(lit):
            ctx.assume(r.sel(an + j) == byte)
    else:
        ctx.assume(qforall(1, lambda j: z3.Implies(z3.And(0 <= j, j < b.n), r.sel(an + j) == bsel(j))))
    return r


def parts_equal(a, b):
    """Equality of two concatenations stated part by part (same number of parts, corresponding parts byte-wise equal);
    pointwise equality of the wholes follows by induction over the parts (concatenation lemma, meta)."""
    pa, pb = getattr(a, 'parts', [a]), getattr(b, 'parts', [b])
    pa = [p for p in pa if not (z3.is_int_value(z3.simplify(p.n)) and z3.simplify(p.n).as_long() == 0)]
    pb = [p for p in pb if not (z3.is_int_value(z3.simplify(p.n)) and z3.simplify(p.n).as_long() == 0)]
    if len(pa) != len(pb):
        return z3.BoolVal(False)
    out = []
    for x, y in zip(pa, pb):
        if x is y:
            continue
        lx, ly = getattr(x, 'literal', None), getattr(y, 'literal', None)
        if lx is not None and ly is not None:
            if lx != ly:
                return z3.BoolVal(False)
            continue
        out.append(beq(x, y))
    return z3.And(*out) if out else z3.BoolVal(True)


def beq(a, b):
    """byte-wise equality of two byte strings"""
    return z3.And(a.n == b.n, qforall(1, lambda k: z3.Implies(z3.And(0 <= k, k < a.n), a.sel(k) == b.sel(k))))


class StrV(Sym):
    """A str known only through its UTF-8 encoding (encode is injective)."""

    def __init__(self, enc):
        self.enc = enc

    def getattr(self, ctx, name):
        if name == 'encode':
            ctx.used_axioms.add('str.encode (UTF-8) is injective')
            return lambda ctx, *a: self.enc
        raise Unsupported('str.' + name)

    def isinstance_(self, ctx, types):
        return str in types

    def truth(self, ctx):
        return self.enc.n > 0


class Sha1(Sym):
    """hashlib.sha1 object: accumulates its input; digest() is an opaque 20-byte value tied to the buffer."""

    def __init__(self, ctx, registry, init=None):
        self.registry = registry
        self.buf = BytesV(z3.IntVal(0), lambda i: z3.IntVal(0), 'sha-buffer')
        if init is not None:
            self.buf = BytesV.of(init)

    def getattr(self, ctx, name):
        if name == 'update':
            def update(ctx, x):
                self.buf = bcat(self.buf, BytesV.of(x), ctx)
            return update
        if name == 'digest':
            def digest(ctx):
                snap = BytesV(self.buf.n, self.buf.sel, 'snapshot')
                snap.parts = list(getattr(self.buf, 'parts', [self.buf]))
                d = Digest(ctx, source=snap)
                self.registry.append(d)
                return d
            return digest
        raise Unsupported('sha1.' + name)

    def havoc(self, ctx, name):
        f = BytesV.fresh_bytes(ctx, name + '.buf', bounded=False)  # a derived buffer: its length is not an input
        self.buf = f
        return self

    def truth(self, ctx):
        return True


DG = z3.Function('sha1_digest_byte', I, I, I)  # (digest id, position) -> byte


class Digest(BytesV):
    def __init__(self, ctx, source=None, ident=None, label='digest'):
        self.ident = ident if ident is not None else ctx.int('digest#', report=False)
        idt = self.ident
        super().__init__(z3.IntVal(20), lambda i: DG(idt, i), label)
        self.source = source


class Hashlib:
    def __init__(self, registry):
        self.registry = registry

    def sym_getattr(self, ctx, name):
        if name == 'sha1':
            ctx.used_axioms.add('hashlib.sha1 idealised: digest is a 20-byte function of the input, assumed injective')
            return lambda ctx, init=None: Sha1(ctx, self.registry, init)
        raise Unsupported('hashlib.' + name)


class SymSeq(Sym):
    """A sequence of symbolic length whose j-th element is produced by `at(j)` (j a z3 Int)."""
    ordered = True

    def __init__(self, n, at, name='seq'):
        self.n, self.at, self.name = n, at, name

    def seq_len(self, ctx):
        return self.n

    def seq_at(self, ctx, j):
        return self.at(j)

    def length(self, ctx):
        return SInt(self.n)

    def truth(self, ctx):
        return self.n > 0

    def isinstance_(self, ctx, types):
        return False


class MappedSeq(SymSeq):
    """(f(x) for x in src): evaluated per symbolic index."""

    def __init__(self, src, fn, name='mapped'):
        super().__init__(src.seq_len(None), lambda j: fn(src.seq_at(None, j)), name)
        self.src, self.fn = src, fn
        self.ordered = getattr(src, 'ordered', True)
        self.perm = getattr(src, 'perm', None)
        self.abstract = getattr(src, 'abstract', None)


def py_sorted_sym(ctx, it, **kw):
    """sorted() over a symbolic sequence of byte strings: by specification the ascending arrangement of the multiset
    of its elements.  For a sequence that enumerates an abstract set in arbitrary order (Unordered), the result is a
    function of the SET only (canonical), which is what makes hashing independent of iteration order."""
    if kw:
        raise Unsupported('sorted with key/reverse on symbolic data')
    if not isinstance(it, SymSeq):
        raise Unsupported('sorted of %r' % (it,))
    ctx.used_axioms.add('sorted(xs): the ascending arrangement of the multiset of xs (a function of the multiset only)')
    setid = getattr(it, 'abstract', None)
    n = it.n
    if setid is not None:
        # element j of the canonical arrangement: block CANON(setid-specific function)(j); a bijection rho relates it to the abstract elements
        elem_of = setid['elem_block']  # abstract element index -> BytesV (via the mapping function evaluated on the abstract element)
        rho = setid.setdefault('rho', z3.Function('rho!%d' % uid(), I, I))
        rinv = setid.setdefault('rho_inv', z3.Function('rhoinv!%d' % uid(), I, I))
        if 'rho_ax' not in setid:
            setid['rho_ax'] = True
        ctx.assume(qforall(1, lambda j: z3.Implies(z3.And(0 <= j, j < n), z3.And(0 <= rho(j), rho(j) < n, rinv(rho(j)) == j))))
        ctx.assume(qforall(1, lambda e: z3.Implies(z3.And(0 <= e, e < n), z3.And(0 <= rinv(e), rinv(e) < n, rho(rinv(e)) == e))))
        fn = it.fn if isinstance(it, MappedSeq) else (lambda x: x)
        base = it.src if isinstance(it, MappedSeq) else it
        out = SymSeq(n, lambda j: fn(base.abstract_at(rho(j))), 'sorted')
        out.canonical = True
        return out
    # ordered input: result is some permutation sigma of it
    sigma = z3.Function('sigma!%d' % uid(), I, I)
    sinv = z3.Function('sigmainv!%d' % uid(), I, I)
    ctx.assume(qforall(1, lambda j: z3.Implies(z3.And(0 <= j, j < n), z3.And(0 <= sigma(j), sigma(j) < n, sinv(sigma(j)) == j))))
    ctx.assume(qforall(1, lambda e: z3.Implies(z3.And(0 <= e, e < n), z3.And(0 <= sinv(e), sinv(e) < n, sigma(sinv(e)) == e))))
    out = SymSeq(n, lambda j: it.at(sigma(j)), 'sorted')
    out.sigma, out.sigma_inv = sigma, sinv
    return out


class Unordered(SymSeq):
    """Iteration over a set / dict / Counter: the abstract elements 0..n-1 visited in an arbitrary order `perm`."""
    ordered = False

    def __init__(self, ctx, n, abstract_at, name, abstract):
        self.perm = z3.Function('iterorder!%d' % uid(), I, I)
        pinv = z3.Function('iterorderinv!%d' % uid(), I, I)
        perm = self.perm
        ctx.assume(qforall(1, lambda j: z3.Implies(z3.And(0 <= j, j < n), z3.And(0 <= perm(j), perm(j) < n, pinv(perm(j)) == j))),
                   axiom='iteration over a set/dict visits every element exactly once in an arbitrary order')
        ctx.assume(qforall(1, lambda e: z3.Implies(z3.And(0 <= e, e < n), z3.And(0 <= pinv(e), pinv(e) < n, perm(pinv(e)) == e))))
        self.abstract_at = abstract_at
        self.abstract = abstract
        super().__init__(n, lambda j: abstract_at(perm(j)), name)
