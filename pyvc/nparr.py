"""Arr1: one-dimensional numpy arrays as (length, index -> element) with views and functional updates.

Contents are represented by a Python closure `sel(i)` over z3 terms, so slices, elementwise results and masked
updates need no quantified definitions.  Quantifiers appear only in `.all()/.any()` and in fancy-index stores
(Skolem witness encoding, DESIGN 2.5).  numpy int64 is treated as mathematical Int (assumption, listed in evidence).
"""
import z3
from .values import Sym, SBool, SInt, SReal, SObj, SOpaque, PyRaise, Unsupported, zint, zbool, is_intlike, FIN, NAN
from .fp import SFp

I = z3.IntSort()
B = z3.BoolSort()
R = z3.RealSort()

# Bounded (refutation) mode: when BOUND is an int, every array has length <= BOUND and every index quantifier is
# expanded over 0..BOUND, so obligations become quantifier-free and a failing one yields a concrete model.  Used
# only to FIND counterexamples for obligations the unbounded run could not prove; never to prove anything.
BOUND = None
_qn = [0]


def qforall(nvars, body, lo=0):
    """forall v1..vk (ints) . body(v1..vk); body must contain its own range guards."""
    if BOUND is None:
        _qn[0] += 1
        vs = [z3.Int('q%d!%d' % (_qn[0], k)) for k in range(nvars)]
        return z3.ForAll(vs, body(*vs))
    import itertools
    return z3.And(*[body(*[z3.IntVal(x) for x in xs]) for xs in itertools.product(range(lo, BOUND + 1), repeat=nvars)])


def qexists(nvars, body, lo=0):
    if BOUND is None:
        _qn[0] += 1
        vs = [z3.Int('e%d!%d' % (_qn[0], k)) for k in range(nvars)]
        return z3.Exists(vs, body(*vs))
    import itertools
    return z3.Or(*[body(*[z3.IntVal(x) for x in xs]) for xs in itertools.product(range(lo, BOUND + 1), repeat=nvars)])


def wrap(kind, e):
    if kind == 'int':
        return SInt(e)
    if kind == 'bool':
        return SBool(e)
    if kind == 'fp':
        return SFp(e[0], e[1])
    if kind == 'real':
        return SReal(e)
    return e


def unwrap(kind, v):
    if kind == 'int':
        return zint(v)
    if kind == 'bool':
        return zbool(v if not isinstance(v, SInt) else SBool(v.v != 0))
    if kind == 'fp':
        f = SFp.lift(v)
        return (f.t, f.v)
    if kind == 'real':
        from .values import zreal
        return zreal(v)
    return v


def ite_elem(kind, c, a, b):
    if kind == 'fp':
        return (z3.If(c, a[0], b[0]), z3.If(c, a[1], b[1]))
    if kind == 'opaque':
        raise Unsupported('conditional on opaque elements')
    return z3.If(c, a, b)


def eq_elem(kind, a, b):
    if kind == 'fp':
        return z3.And(a[0] == b[0], z3.Or(a[0] != FIN, a[1] == b[1]))
    return a == b


class DType(Sym):
    def __init__(self, kind):
        self.k = kind  # 'int' 'bool' 'fp'

    def getattr(self, ctx, name):
        if name == 'kind':
            return {'int': 'i', 'bool': 'b', 'fp': 'f', 'real': 'f'}[self.k]
        raise Unsupported('dtype.' + name)

    def compare(self, ctx, op, other, reflected):
        from .ops import Builtin
        t = other.type if isinstance(other, Builtin) else other
        m = {'int': int, 'bool': bool, 'fp': float, 'real': float}
        if isinstance(other, DType):
            same = other.k == self.k
        elif isinstance(t, type):
            same = m[self.k] is t
        else:
            return NotImplemented
        if op == '==':
            return same
        if op == '!=':
            return not same
        return NotImplemented

    def truth(self, ctx):
        return True


class Vec(Sym):
    """1-D array.  `n` z3 Int length, `sel(i)` element term at index i (only meaningful for 0 <= i < n)."""
    ndim_value = 1

    def __init__(self, kind, n, sel, name='vec', base=None):
        self.kind = kind
        self.n = n if z3.is_expr(n) else z3.IntVal(n)
        self._sel = sel
        self.name = name
        self.base = base  # (Vec, offset) when this is a writable view

    # -- construction
    @staticmethod
    def fresh(ctx, name, kind, n=None, report=True, probes=0):
        if n is None:
            n = ctx.int('len(%s)' % name, report=report)
            ctx.assume(n >= 0)
        if BOUND is not None and report:
            ctx.assume(z3.And(n <= BOUND, n >= 0))
        if kind == 'fp':
            at = z3.Array(ctx.name(name + '.t'), I, I)
            av = z3.Array(ctx.name(name + '.v'), I, R)
            ctx.assume(qforall(1, lambda i: z3.And(z3.Select(at, i) >= 0, z3.Select(at, i) <= 3)))
            v = Vec(kind, n, lambda i: (z3.Select(at, i), z3.Select(av, i)), name)
        else:
            a = z3.Array(ctx.name(name), I, {'int': I, 'bool': B, 'real': R}[kind])
            v = Vec(kind, n, lambda i: z3.Select(a, i), name)
            if BOUND is not None and kind == 'int' and report:
                w = 2 * BOUND + 2
                ctx.assume(qforall(1, lambda i: z3.And(z3.Select(a, i) >= -w, z3.Select(a, i) <= w)))
        for k in range(probes):
            e = v.sel(z3.IntVal(k))
            if kind == 'fp':
                pt, pv = ctx.int('%s[%d].t' % (name, k)), ctx.real('%s[%d].v' % (name, k))
                ctx.assume(z3.And(pt == e[0], pv == e[1]))
            else:
                p = ctx.const('%s[%d]' % (name, k), {'int': I, 'bool': B, 'real': R}[kind])
                ctx.assume(p == e)
        return v

    @staticmethod
    def const(kind, n, value):
        e = unwrap(kind, value)
        return Vec(kind, n, lambda i: e, 'const')

    def havoc(self, ctx, name):
        """In-place: the array object keeps its identity (iterators and views keep seeing it), contents become arbitrary."""
        f = Vec.fresh(ctx, name, self.kind, n=self.n, report=False)
        if self.base is not None:
            self._write(f._sel)
        else:
            self._sel = f._sel
        return self

    def sel(self, i):
        return self._sel(i)

    def frozen_sel(self):
        """The contents as they are NOW: numpy results (copies, elementwise results, fancy takes) do not change when an operand
        is stored into later.  A plain array is rebound on every store, so its current closure is a snapshot; a slice view reads
        through its base, so the base is snapshotted."""
        if self.base is None:
            return self._sel
        b, off = self.base
        bs = b.frozen_sel()
        return lambda i: bs(i + off)

    def copy(self):
        s = self.frozen_sel()
        return Vec(self.kind, self.n, s, self.name + "'")

    # -- quantified summaries
    def forall(self, pred):
        return qforall(1, lambda i: z3.Implies(z3.And(0 <= i, i < self.n), pred(i, self.sel(i))))

    def exists(self, pred):
        return qexists(1, lambda i: z3.And(0 <= i, i < self.n, pred(i, self.sel(i))))

    # -- python protocol
    def length(self, ctx):
        return SInt(self.n)

    def truth(self, ctx):
        raise PyRaise('ValueError', note='truth value of an array is ambiguous')

    def getattr(self, ctx, name):
        if name == 'ndim':
            return 1
        if name == 'shape':
            return (SInt(self.n),)
        if name == 'size':
            return SInt(self.n)
        if name == 'dtype':
            return DType(self.kind)
        if name == 'all':
            return lambda ctx: self._all(ctx)
        if name == 'any':
            return lambda ctx: self._any(ctx)
        if name == 'copy':
            return lambda ctx: self.copy()
        if name == 'sum':
            return lambda ctx, *a, **k: self._sum(ctx)
        if name == 'ravel':
            return lambda ctx: self
        if name == '__len__':
            return lambda ctx: SInt(self.n)
        if name == 'astype':
            return lambda ctx, t, **k: self._astype(ctx, t)
        if name == 'max' or name == 'min':
            return lambda ctx, *a, **k: self._extreme(ctx, name)
        if name == 'T':
            return self
        raise Unsupported('ndarray.%s not modelled' % name)

    def _astype(self, ctx, t):
        from .ops import Builtin
        tt = t.type if isinstance(t, Builtin) else t
        if (tt is int and self.kind == 'int') or (tt is bool and self.kind == 'bool') or (tt is float and self.kind == 'fp'):
            return self
        if tt is int and self.kind == 'bool':
            s = self._sel
            return Vec('int', self.n, lambda i: z3.If(s(i), 1, 0), self.name)
        raise Unsupported('astype')

    def _extreme(self, ctx, which):
        if self.kind != 'int':
            raise Unsupported('max/min of non-int array')
        if not ctx.branch(self.n > 0):
            raise PyRaise('ValueError', note='%s of empty array' % which)
        m = ctx.int('%s(%s)' % (which, self.name), report=False)
        k = ctx.int('arg%s(%s)' % (which, self.name), report=False)
        ctx.assume(z3.And(0 <= k, k < self.n, self.sel(k) == m))
        ctx.assume(self.forall((lambda i, e: e <= m) if which == 'max' else (lambda i, e: e >= m)), axiom='ndarray.max/min: an attained bound')
        return SInt(m)

    def _sum(self, ctx):
        if self.kind == 'bool':
            return SInt(self.count(ctx))
        raise Unsupported('sum of %s array' % self.kind)

    def count(self, ctx):
        """number of True entries; one symbol per array object (valid while the array is not written to)"""
        c = getattr(self, '_count', None)
        if c is None or self._count_sel is not self._sel:
            c = ctx.int('count(%s)' % self.name, report=False)
            ctx.assume(z3.And(0 <= c, c <= self.n), axiom='count of True entries lies in [0, len]')
            inv = getattr(self, '_inv_of', None)
            if inv is not None:  # count(~m) = len - count(m)
                ctx.assume(c == self.n - inv.count(ctx))
            self._count, self._count_sel = c, self._sel
        return c

    def _all(self, ctx):
        if self.kind == 'bool':
            return SBool(self.forall(lambda i, e: e))
        if self.kind == 'int':
            return SBool(self.forall(lambda i, e: e != 0))
        if self.kind == 'fp':
            return SBool(self.forall(lambda i, e: z3.Not(z3.And(e[0] == FIN, e[1] == 0))))
        raise Unsupported('.all() on %s' % self.kind)

    def _any(self, ctx):
        if self.kind == 'bool':
            return SBool(self.exists(lambda i, e: e))
        if self.kind == 'int':
            return SBool(self.exists(lambda i, e: e != 0))
        raise Unsupported('.any() on %s' % self.kind)

    def iterate(self, ctx):
        # python-level iteration (e.g. builtin all(a >= b)): handled by all()/any() hooks below
        raise Unsupported('python iteration over a symbolic array (use .all()/.any() or a loop contract)')

    # sequence interface for invariant-carrying `for` loops
    def seq_len(self, ctx):
        return self.n

    def seq_at(self, ctx, i):
        return wrap(self.kind, self.sel(i))

    def norm_index(self, ctx, idx):
        i = zint(idx)
        if not ctx.branch(z3.And(i >= -self.n, i < self.n)):
            raise PyRaise('IndexError', note='index out of bounds for %s' % self.name)
        return z3.If(i < 0, i + self.n, i)

    def slice_bounds(self, ctx, sl):
        """numpy/python slice with step 1 -> (start, length) clamped like slice.indices"""
        if sl.step is not None and not (isinstance(sl.step, int) and sl.step == 1):
            raise Unsupported('slice step')
        n = self.n

        def clamp(x, default):
            if x is None:
                return default
            v = zint(x)
            v = z3.If(v < 0, v + n, v)
            return z3.If(v < 0, 0, z3.If(v > n, n, v))
        start = clamp(sl.start, z3.IntVal(0))
        stop = clamp(sl.stop, n)
        ln = z3.If(stop > start, stop - start, 0)
        return z3.simplify(start), z3.simplify(ln)

    def getitem(self, ctx, idx):
        if isinstance(idx, tuple) and len(idx) == 1:
            idx = idx[0]
        if isinstance(idx, slice):
            start, ln = self.slice_bounds(ctx, idx)
            me = self
            return Vec(self.kind, ln, lambda i: me.sel(i + start), '%s[%s:]' % (self.name, start), base=(self, start))
        if is_intlike(idx):
            i = self.norm_index(ctx, idx)
            return wrap(self.kind, self.sel(i))
        if isinstance(idx, Vec) and idx.kind == 'bool':
            return MaskSel(self, idx)
        if isinstance(idx, Vec) and idx.kind == 'int':
            # fancy take: result[k] = self[idx[k]] (bounds: IndexError if any index is out of range)
            ok = idx.forall(lambda k, e: z3.And(e >= -self.n, e < self.n))
            if not ctx.branch(ok):
                raise PyRaise('IndexError')
            ms, xs, mn = self.frozen_sel(), idx.frozen_sel(), self.n  # a fancy take is a copy
            return Vec(self.kind, idx.n, lambda k: ms(z3.If(xs(k) < 0, xs(k) + mn, xs(k))), '%s[%s]' % (self.name, idx.name))
        raise Unsupported('array index %r' % (idx,))

    def _write(self, newsel):
        """Functional update; writes through to the base array for views."""
        if self.base is not None:
            b, off = self.base
            n = self.n
            old = b._sel
            b._write(lambda j: _pick(b.kind, z3.And(j >= off, j < off + n), newsel(j - off), old(j)))
            # the view keeps reading through the base
        else:
            self._sel = newsel

    def setitem(self, ctx, idx, value):
        if isinstance(idx, tuple) and len(idx) == 1:
            idx = idx[0]
        kind = self.kind
        old = self._sel if self.base is None else self.sel
        if is_intlike(idx):
            i = self.norm_index(ctx, idx)
            e = unwrap(kind, value)
            self._write(lambda j: _pick(kind, j == i, e, old(j)))
            return
        if isinstance(idx, slice):
            start, ln = self.slice_bounds(ctx, idx)
            if isinstance(value, Vec):
                if not ctx.branch(z3.Or(value.n == ln, value.n == 1)):
                    raise PyRaise('ValueError', note='could not broadcast')
                self._write(lambda j: _pick(kind, z3.And(j >= start, j < start + ln), value.sel(z3.If(value.n == 1, 0, j - start)), old(j)))
            else:
                e = unwrap(kind, value)
                self._write(lambda j: _pick(kind, z3.And(j >= start, j < start + ln), e, old(j)))
            return
        if isinstance(idx, Vec) and idx.kind == 'bool':
            if not ctx.branch(idx.n == self.n):
                raise PyRaise('IndexError', note='boolean index did not match')
            if isinstance(value, MaskSel) and value.mask is idx:
                src = value.arr
                self._write(lambda j: _pick(kind, idx.sel(j), src.sel(j), old(j)))
            elif isinstance(value, (MaskSel, Vec)):
                # a[mask] = vec of len count(mask): entries under the mask become arbitrary values of vec
                h = Vec.fresh(ctx, 'scatter(%s)' % self.name, kind, n=self.n, report=False)
                self._write(lambda j: _pick(kind, idx.sel(j), h.sel(j), old(j)))
            else:
                e = unwrap(kind, value)
                self._write(lambda j: _pick(kind, idx.sel(j), e, old(j)))
            return
        if isinstance(idx, (Vec, MaskSel)):
            ivec = idx if isinstance(idx, Vec) else None
            if ivec is None:
                # integer array selected by a mask: arr[mask] used as indices
                ivec = idx.compress(ctx)
            if ivec.kind != 'int':
                raise Unsupported('fancy store with non-int index')
            ok = ivec.forall(lambda k, e: z3.And(e >= -self.n, e < self.n))
            if not ctx.branch(ok):
                raise PyRaise('IndexError')
            if isinstance(value, MaskSel):
                raise Unsupported('fancy store of a masked selection')
            if isinstance(value, Vec):
                # x[idx] = v with equally long int-array idx and array v: x'[idx[k]] = v[k]; unique hits are required for a
                # deterministic result (numpy: last write wins) -- callers pass a permutation / injective idx
                if not ctx.branch(value.n == ivec.n):
                    raise PyRaise('ValueError', note='shape mismatch in fancy assignment')
                X = Vec.fresh(ctx, "%s'" % self.name, kind, n=self.n, report=False)
                w = z3.Function(ctx.name('w!%s' % self.name), I, I)
                norm = lambda x: z3.If(x < 0, x + self.n, x)
                ctx.lemma('fancy-store-precondition:index-injective', qforall(2, lambda a, b: z3.Implies(z3.And(0 <= a, a < b, b < ivec.n), norm(ivec.sel(a)) != norm(ivec.sel(b)))))
                ctx.assume(qforall(1, lambda k: z3.Implies(z3.And(0 <= k, k < ivec.n), eq_elem(kind, X.sel(norm(ivec.sel(k))), value.sel(k)))),
                           axiom='x[idx] = v with injective integer-array idx: x[idx[k]] = v[k], every other position unchanged (Skolem witness form)')
                ctx.assume(qforall(1, lambda j: z3.Or(eq_elem(kind, X.sel(j), old(j)), z3.And(0 <= w(j), w(j) < ivec.n, norm(ivec.sel(w(j))) == j))))
                self._write(X._sel)
                return
            e = unwrap(kind, value)
            # Skolem encoding: new array X with  (forall k: X[idx[k]] = e)  and  (forall j: X[j] = old[j] or idx[w(j)] = j)
            X = Vec.fresh(ctx, "%s'" % self.name, kind, n=self.n, report=False)
            w = z3.Function(ctx.name('w!%s' % self.name), I, I)
            norm = lambda x: z3.If(x < 0, x + self.n, x)
            ctx.assume(qforall(1, lambda k: z3.Implies(z3.And(0 <= k, k < ivec.n), eq_elem(kind, X.sel(norm(ivec.sel(k))), e))),
                       axiom='x[idx] = v with integer-array idx: every hit position holds v, every other position is unchanged (Skolem witness form)')
            ctx.assume(qforall(1, lambda j: z3.Or(eq_elem(kind, X.sel(j), old(j)), z3.And(0 <= w(j), w(j) < ivec.n, norm(ivec.sel(w(j))) == j))))
            self._write(X._sel)
            return
        raise Unsupported('array store index %r' % (idx,))

    # elementwise operators
    def _zip(self, ctx, other, f, kind):
        a = self
        if isinstance(other, Vec):
            if not ctx.branch(z3.Or(other.n == a.n, other.n == 1, a.n == 1)):
                raise PyRaise('ValueError', note='operands could not be broadcast together')
            n = z3.If(a.n == 1, other.n, a.n) if not z3.eq(a.n, other.n) else a.n
            sa, sb, na, nb = a.frozen_sel(), other.frozen_sel(), a.n, other.n  # elementwise results are new arrays
            same = z3.eq(na, nb)
            return Vec(kind, z3.simplify(n), lambda i: f(sa(i if same else z3.If(na == 1, 0, i)), sb(i if same else z3.If(nb == 1, 0, i))), '(%s op %s)' % (a.name, other.name))
        e = unwrap(a.kind if a.kind != 'bool' or not is_intlike(other) else 'bool', other) if not isinstance(other, SFp) else unwrap('fp', other)
        sa = a.frozen_sel()
        return Vec(kind, a.n, lambda i: f(sa(i), e), '(%s op c)' % a.name)

    def compare(self, ctx, op, other, reflected):
        if self.kind == 'int' and (is_intlike(other) or (isinstance(other, Vec) and other.kind == 'int')):
            fs = {'<': lambda x, y: x < y, '<=': lambda x, y: x <= y, '>': lambda x, y: x > y, '>=': lambda x, y: x >= y,
                  '==': lambda x, y: x == y, '!=': lambda x, y: x != y}
            f = fs[op]
            if reflected:
                g = f
                f = lambda x, y: g(y, x)
            return self._zip(ctx, other, f, 'bool')
        if self.kind == 'bool' and op in ('==', '!=') and (isinstance(other, (bool, SBool)) or (isinstance(other, Vec) and other.kind == 'bool')):
            return self._zip(ctx, other, (lambda x, y: x == y) if op == '==' else (lambda x, y: x != y), 'bool')
        if self.kind == 'fp' and (SFp.liftable(other) or (isinstance(other, Vec) and other.kind == 'fp')):
            rel = {'<': SFp.lt, '<=': SFp.le, '>': lambda a, b: SFp.lt(b, a), '>=': lambda a, b: SFp.le(b, a), '==': SFp.eq,
                   '!=': lambda a, b: z3.Not(SFp.eq(a, b))}[op]
            f = (lambda x, y: rel(SFp(*y), SFp(*x))) if reflected else (lambda x, y: rel(SFp(*x), SFp(*y)))
            return self._zip(ctx, other if isinstance(other, Vec) else SFp.lift(other), f, 'bool')
        return NotImplemented

    def binop(self, ctx, op, other, reflected):
        if self.kind == 'int' and (is_intlike(other) or (isinstance(other, Vec) and other.kind == 'int')):
            fs = {'+': lambda x, y: x + y, '-': lambda x, y: x - y, '*': lambda x, y: x * y}
            if op in fs:
                f = fs[op]
                if reflected:
                    g = f
                    f = lambda x, y: g(y, x)
                return self._zip(ctx, other, f, 'int')
        if self.kind == 'bool' and op in ('&', '|', '^') and (isinstance(other, (bool, SBool)) or (isinstance(other, Vec) and other.kind == 'bool')):
            f = {'&': z3.And, '|': z3.Or, '^': z3.Xor}[op]
            return self._zip(ctx, other, f, 'bool')
        if self.kind == 'fp' and op in ('+', '-', '*', '/', '@'):
            # uninterpreted float arithmetic: result elements are arbitrary floats
            ctx.used_axioms.add('floating-point arithmetic is uninterpreted (results are arbitrary floats)')
            n = self.n
            if isinstance(other, Vec) and op != '@':
                if not ctx.branch(z3.Or(other.n == n, other.n == 1, n == 1)):
                    raise PyRaise('ValueError', note='operands could not be broadcast together')
            if op == '@':
                return SFp.fresh(ctx, 'dot', report=False)
            return Vec.fresh(ctx, 'fp%s' % {'+': 'add', '-': 'sub', '*': 'mul', '/': 'div'}[op], 'fp', n=n, report=False)
        return NotImplemented

    def unop(self, ctx, op):
        s = self._sel if self.base is None else self.sel
        if op == '~' and self.kind == 'bool':
            inv = getattr(self, '_inv', None)
            if inv is None or self._inv_sel is not self._sel:
                inv = Vec('bool', self.n, lambda i: z3.Not(s(i)), '~' + self.name)
                inv._inv_of = self
                self._inv, self._inv_sel = inv, self._sel
            return inv
        if op == '-' and self.kind == 'int':
            return Vec('int', self.n, lambda i: -s(i), '-' + self.name)
        if op == '-' and self.kind == 'fp':
            me = self
            return Vec('fp', self.n, lambda i: (lambda f: (f.t, f.v))(SFp(*me.sel(i)).unop(ctx, '-')), '-' + self.name)
        if op == 'abs' and self.kind == 'int':
            return Vec('int', self.n, lambda i: z3.If(s(i) < 0, -s(i), s(i)), 'abs ' + self.name)
        if op == 'abs' and self.kind == 'fp':
            me = self
            return Vec('fp', self.n, lambda i: (lambda f: (f.t, f.v))(SFp(*me.sel(i)).unop(ctx, 'abs')), 'abs ' + self.name)
        raise Unsupported('array unary ' + op)

    def sym_iop(self, ctx, op, rhs):
        return NotImplemented

    def __repr__(self):
        return 'Vec<%s %s n=%s>' % (self.kind, self.name, self.n)


def _pick(kind, c, a, b):
    return ite_elem(kind, c, a, b)


class MaskSel(Sym):
    """arr[mask] with a boolean mask: a compressed selection, kept symbolic as (arr, mask)."""

    def __init__(self, arr, mask):
        self.arr, self.mask = arr, mask
        self.kind = arr.kind

    def compress(self, ctx):
        """An explicit vector of the selected entries: length = count(mask); every entry is some selected element,
        every selected element occurs (in order; order is not modelled)."""
        a, m = self.arr, self.mask
        c = m.count(ctx)
        pos = z3.Function(ctx.name('pos!%s' % m.name), I, I)  # k-th selected position
        rank = z3.Function(ctx.name('rank!%s' % m.name), I, I)
        ctx.assume(qforall(1, lambda k: z3.Implies(z3.And(0 <= k, k < c), z3.And(0 <= pos(k), pos(k) < a.n, m.sel(pos(k)), rank(pos(k)) == k))),
                   axiom='arr[mask]: order-preserving bijection between selected positions and 0..count-1')
        ctx.assume(qforall(1, lambda j: z3.Implies(z3.And(0 <= j, j < a.n, m.sel(j)), z3.And(0 <= rank(j), rank(j) < c, pos(rank(j)) == j))))
        return Vec(a.kind, c, lambda kk: a.sel(pos(kk)), '%s[%s]' % (a.name, m.name))

    def getattr(self, ctx, name):
        if name in ('shape', 'size', 'all', 'any', 'dtype', 'ndim', 'sum'):
            return self.compress(ctx).getattr(ctx, name)
        raise Unsupported('attribute %s of masked selection' % name)

    def length(self, ctx):
        return self.compress(ctx).length(ctx)

    def binop(self, ctx, op, other, reflected):
        return self.compress(ctx).binop(ctx, op, other, reflected)

    def compare(self, ctx, op, other, reflected):
        return self.compress(ctx).compare(ctx, op, other, reflected)

    def unop(self, ctx, op):
        return self.compress(ctx).unop(ctx, op)


# ---- numpy module model -------------------------------------------------------------------------------------

def _kind_of_dtype(ctx, dt, default='fp'):
    from .ops import Builtin
    if dt is None:
        return default
    t = dt.type if isinstance(dt, Builtin) else dt
    if t is bool:
        return 'bool'
    if t is int:
        return 'int'
    if t is float:
        return 'fp'
    if isinstance(dt, DType):
        return dt.k
    raise Unsupported('dtype %r' % (dt,))


def _shape1(ctx, shape):
    if isinstance(shape, tuple):
        if len(shape) != 1:
            raise Unsupported('only 1-D arrays are modelled')
        shape = shape[0]
    n = zint(shape)
    if not ctx.branch(n >= 0):
        raise PyRaise('ValueError', note='negative dimensions are not allowed')
    return n


class Numpy:
    """The slice of the numpy API used by the functions under contract (each entry is an external axiom)."""
    newaxis = None

    def __init__(self, extra=None):
        self.extra = extra or {}

    def sym_getattr(self, ctx, name):
        if name in self.extra:
            return self.extra[name]
        f = getattr(self, 'np_' + name, None)
        if f is None:
            if name == 'nan':
                return float('nan')
            if name == 'inf':
                return float('inf')
            if name == 'linalg':
                return Linalg()
            if name == 'newaxis':
                return None
            raise Unsupported('numpy.%s is not modelled' % name)
        return f

    def np_asarray(self, ctx, x, dtype=None):
        if isinstance(x, (Vec, SObj, SOpaque)):
            return x
        if hasattr(x, 'as_array'):
            return x.as_array(ctx)
        raise Unsupported('numpy.asarray of %r' % (x,))

    def np_array(self, ctx, x, dtype=None):
        r = self.np_asarray(ctx, x, dtype)
        return r.copy() if isinstance(r, Vec) else r

    def np_empty(self, ctx, shape, dtype=None):
        return Vec.fresh(ctx, 'empty', _kind_of_dtype(ctx, dtype), n=_shape1(ctx, shape), report=False)

    def np_zeros(self, ctx, shape, dtype=None):
        k = _kind_of_dtype(ctx, dtype)
        return Vec.const(k, _shape1(ctx, shape), {'int': 0, 'bool': False, 'fp': 0.0}[k])

    def np_ones(self, ctx, shape, dtype=None):
        k = _kind_of_dtype(ctx, dtype)
        return Vec.const(k, _shape1(ctx, shape), {'int': 1, 'bool': True, 'fp': 1.0}[k])

    def np_full(self, ctx, shape, value, dtype=None):
        k = _kind_of_dtype(ctx, dtype)
        return Vec.const(k, _shape1(ctx, shape), value)

    def np_zeros_like(self, ctx, a):
        return Vec.const(a.kind, a.n, {'int': 0, 'bool': False, 'fp': 0.0}[a.kind])

    def np_ones_like(self, ctx, a):
        return Vec.const(a.kind, a.n, {'int': 1, 'bool': True, 'fp': 1.0}[a.kind])

    def np_arange(self, ctx, n):
        return Vec('int', _shape1(ctx, n), lambda i: i, 'arange')

    def np_isnan(self, ctx, a):
        if isinstance(a, Vec) and a.kind == 'fp':
            return Vec('bool', a.n, lambda i: a.sel(i)[0] == NAN, 'isnan(%s)' % a.name)
        if SFp.liftable(a):
            return SBool(SFp.lift(a).isnan())
        raise Unsupported('isnan')

    def np_isfinite(self, ctx, a):
        if isinstance(a, Vec) and a.kind == 'fp':
            return Vec('bool', a.n, lambda i: a.sel(i)[0] == FIN, 'isfinite(%s)' % a.name)
        if isinstance(a, MaskSel):
            return self.np_isfinite(ctx, a.compress(ctx))
        if SFp.liftable(a):
            return SBool(SFp.lift(a).isfinite())
        if hasattr(a, 'np_isfinite'):
            return a.np_isfinite(ctx)
        raise Unsupported('isfinite of %r' % (a,))

    def _cmp_out(self, ctx, a, b, out, f):
        if not ctx.branch(a.n == b.n):
            raise PyRaise('ValueError', note='operands could not be broadcast together')
        sa, sb = a.frozen_sel(), b.frozen_sel()  # the comparison is evaluated now
        r = Vec('bool', a.n, lambda i: f(sa(i), sb(i)), 'cmp')
        if out is None:
            return r
        if not ctx.branch(out.n == a.n):
            raise PyRaise('ValueError', note='non-broadcastable output operand')
        out._write(r._sel)
        return out

    def np_greater_equal(self, ctx, a, b, out=None):
        return self._cmp_out(ctx, a, b, out, lambda x, y: x >= y)

    def np_greater(self, ctx, a, b, out=None):
        return self._cmp_out(ctx, a, b, out, lambda x, y: x > y)

    def np_less(self, ctx, a, b, out=None):
        return self._cmp_out(ctx, a, b, out, lambda x, y: x < y)

    def np_less_equal(self, ctx, a, b, out=None):
        return self._cmp_out(ctx, a, b, out, lambda x, y: x <= y)

    def np_not_equal(self, ctx, a, b, out=None):
        return self._cmp_out(ctx, a, b, out, lambda x, y: x != y)

    def np_equal(self, ctx, a, b, out=None):
        return self._cmp_out(ctx, a, b, out, lambda x, y: x == y)


def _np_searchsorted(self, ctx, a, v, side='left', sorter=None):
    """numpy.searchsorted on a SORTED 1-D int array (numpy leaves the unsorted case unspecified): the insertion point."""
    if sorter is not None or not (isinstance(a, Vec) and a.kind == 'int'):
        raise Unsupported('searchsorted variant')
    x = zint(v)
    p = ctx.int('searchsorted(%s)' % a.name, report=False)
    if side == 'left':
        lo, hi = (lambda e: e < x), (lambda e: e >= x)
    elif side == 'right':
        lo, hi = (lambda e: e <= x), (lambda e: e > x)
    else:
        raise PyRaise('ValueError', note='side')
    ctx.assume(z3.And(0 <= p, p <= a.n), axiom='numpy.searchsorted(a, v, side) requires sorted a; then 0 <= p <= len, a[j] < v (<=) for j < p, a[j] >= v (>) for j >= p')
    # callee precondition: the array is sorted (proved at the call site, then used)
    # quantify in the coordinates of the underlying array, so that E-matching finds base[k] terms (a view reads base[j+off])
    root, off = a, z3.IntVal(0)
    while root.base is not None:
        root, off = root.base[0], off + root.base[1]
    off = z3.simplify(off)
    n = a.n
    ctx.lemma('searchsorted-precondition:sorted', qforall(2, lambda i, j: z3.Implies(z3.And(off <= i, i <= j, j < off + n), root.sel(i) <= root.sel(j))))
    ctx.assume(qforall(1, lambda m: z3.Implies(z3.And(off <= m, m < off + p), lo(root.sel(m)))))
    ctx.assume(qforall(1, lambda m: z3.Implies(z3.And(off + p <= m, m < off + n), hi(root.sel(m)))))
    return SInt(p)


Numpy.np_searchsorted = _np_searchsorted


def _np_cumsum(self, ctx, a):
    """numpy.cumsum of a 1-D bool/int array: c[0] = a[0], c[k] = c[k-1] + a[k]  (L-CUMSUM)."""
    if not (isinstance(a, Vec) and a.kind in ('int', 'bool')):
        raise Unsupported('cumsum of %r' % (a,))
    val = (lambda i: z3.If(a.sel(i), 1, 0)) if a.kind == 'bool' else a.sel
    c = Vec.fresh(ctx, 'cumsum(%s)' % a.name, 'int', n=a.n, report=False)
    ctx.assume(z3.Implies(a.n > 0, c.sel(z3.IntVal(0)) == val(z3.IntVal(0))), axiom='L-CUMSUM: numpy.cumsum recurrence c[0] = a[0], c[k] = c[k-1] + a[k]')
    ctx.assume(qforall(1, lambda k: z3.Implies(z3.And(1 <= k, k < a.n), c.sel(k) == c.sel(k - 1) + val(k))))
    return c


def _np_empty_like(self, ctx, a):
    return Vec.fresh(ctx, 'empty_like', a.kind, n=a.n, report=False)


Numpy.np_cumsum = _np_cumsum
Numpy.np_empty_like = _np_empty_like


class Linalg:
    def sym_getattr(self, ctx, name):
        if name == 'norm':
            def norm(ctx, x, axis=None):
                ctx.used_axioms.add('numpy.linalg.norm(x) is a float that is >= 0 or nan (uninterpreted otherwise)')
                r = SFp.fresh(ctx, 'norm', report=False)
                ctx.assume(z3.Or(r.t == NAN, r.t == 1, z3.And(r.t == FIN, r.v >= 0)))
                if axis is not None:
                    return NormVec(r)
                return r
            return norm
        raise Unsupported('numpy.linalg.' + name)


class NormVec(Sym):
    """norm(x, axis=0): per-column norms; only `.max()` is used."""

    def __init__(self, r):
        self.r = r

    def getattr(self, ctx, name):
        if name == 'max':
            return lambda ctx: self.r
        raise Unsupported('norm vector .' + name)


def builtin_all(ctx, it):
    if isinstance(it, Vec):
        return it._all(ctx)
    return None


def builtin_any(ctx, it):
    if isinstance(it, Vec):
        return it._any(ctx)
    return None


class SList(Vec):
    """A Python list of ints of symbolic length (grown by append inside an invariant-carrying loop)."""

    def __init__(self, n, sel, name='list'):
        super().__init__('int', n, sel, name)

    @staticmethod
    def fresh_list(ctx, name):
        n = ctx.int('len(%s)' % name, report=False)
        ctx.assume(n >= 0)
        a = z3.Array(ctx.name(name), I, I)
        return SList(n, lambda i: z3.Select(a, i), name)

    def havoc(self, ctx, name):
        f = SList.fresh_list(ctx, name)
        self.n, self._sel = f.n, f._sel
        return self

    def getattr(self, ctx, name):
        if name == 'append':
            def append(ctx, v):
                old, n, e = self._sel, self.n, zint(v)
                self._sel = lambda i: z3.If(i == n, e, old(i))
                self.n = n + 1
            return append
        return super().getattr(ctx, name)

    def truth(self, ctx):
        return self.n > 0

    def binop(self, ctx, op, other, reflected):
        # list concatenation: [c0, c1, ..] + L, L + [..], L + L  (Python lists of ints)
        if op == '+' and (isinstance(other, SList) or (isinstance(other, list) and all(is_intlike(x) for x in other))):
            a, b = (other, self) if reflected else (self, other)
            return SList.concat(a, b)
        if isinstance(other, (list, tuple)):
            return NotImplemented
        return super().binop(ctx, op, other, reflected)

    @staticmethod
    def concat(a, b):
        def parts(x):
            if isinstance(x, SList):
                return x.n, x._sel
            items = [zint(v) for v in x]

            def sel(i):
                r = z3.IntVal(0)
                for k in range(len(items) - 1, -1, -1):
                    r = z3.If(i == k, items[k], r)
                return r
            return z3.IntVal(len(items)), sel
        (na, sa), (nb, sb) = parts(a), parts(b)
        return SList(z3.simplify(na + nb), lambda i: z3.If(i < na, sa(i), sb(i - na)), 'concat')

    def sym_min(self, ctx):
        if not ctx.branch(self.n > 0):
            raise PyRaise('ValueError', note='min() of empty list')
        m = ctx.int('min(%s)' % self.name, report=False)
        w = ctx.int('argmin(%s)' % self.name, report=False)
        ctx.assume(z3.And(0 <= w, w < self.n, self.sel(w) == m), axiom='min(list): an attained lower bound')
        ctx.assume(self.forall(lambda i, e: m <= e))
        return SInt(m)


def _sym_max(self, ctx):
    if not ctx.branch(self.n > 0):
        raise PyRaise('ValueError', note='max() of empty list')
    m = ctx.int('max(%s)' % self.name, report=False)
    w = ctx.int('argmax(%s)' % self.name, report=False)
    ctx.assume(z3.And(0 <= w, w < self.n, self.sel(w) == m), axiom='max(list): an attained upper bound')
    ctx.assume(self.forall(lambda i, e: m >= e))
    return SInt(m)


SList.sym_max = _sym_max


class SRange(Sym):
    """range(start, stop) with symbolic bounds (step 1)."""

    def __init__(self, start, stop):
        self.start, self.stop = start, stop

    @staticmethod
    def make(ctx, *a):
        if len(a) == 1:
            return SRange(z3.IntVal(0), zint(a[0]))
        if len(a) == 2:
            return SRange(zint(a[0]), zint(a[1]))
        raise Unsupported('range with a step')

    def seq_len(self, ctx):
        return z3.If(self.stop > self.start, self.stop - self.start, 0)

    def seq_at(self, ctx, i):
        return SInt(self.start + i)

    def length(self, ctx):
        return SInt(self.seq_len(ctx))

    def iterate(self, ctx):
        n = z3.simplify(self.seq_len(ctx))
        if z3.is_int_value(n):
            s = z3.simplify(self.start)
            return [SInt(s + k) for k in range(n.as_long())]
        raise Unsupported('iteration over a range of symbolic length (needs a loop contract)')


class Enumerated(Sym):
    """enumerate(vec): live view, element i is (i, vec[i]) read when reached."""

    def __init__(self, vec, start=0):
        self.vec, self.start = vec, start

    def seq_len(self, ctx):
        return self.vec.n

    def seq_at(self, ctx, i):
        return (SInt(i + self.start), wrap(self.vec.kind, self.vec.sel(i)))
