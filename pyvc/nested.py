"""A Python list of symbolic length whose items are (mutable) lists of ints: `[[] for i in range(n)]`.

State: n, LEN(d), EL(d, k) as Python closures over z3 terms (like nparr.Vec), so `x[d].append(v)` is a functional
update and needs no quantified frame axiom.  GHOST state (specification only, never read by the program):
POS(d, v) = the position at which value v was appended LAST to list d (-1 if never) -- the Skolem witness of
"v in x[d]" that loop invariants may use instead of an existential.
"""
import z3
from .values import Sym, SInt, PyRaise, Unsupported, zint, is_intlike

I = z3.IntSort()


class NestedIntLists(Sym):
    def __init__(self, n, len_f, el_f, pos_f, name='lists'):
        self.n = n if z3.is_expr(n) else z3.IntVal(n)
        self.len_f, self.el_f, self.pos_f = len_f, el_f, pos_f
        self.name = name

    @staticmethod
    def empty(ctx, n, name='lists'):
        """n distinct empty lists"""
        return NestedIntLists(n, lambda d: z3.IntVal(0), lambda d, k: z3.IntVal(0), lambda d, v: z3.IntVal(-1), name)

    def havoc(self, ctx, name):
        """In place (rows handed out earlier keep seeing this object): lengths, items and the ghost become arbitrary."""
        L = z3.Function(ctx.name('len!' + name), I, I)
        E = z3.Function(ctx.name('el!' + name), I, I, I)
        P = z3.Function(ctx.name('pos!' + name), I, I, I)
        self.len_f, self.el_f, self.pos_f = (lambda d: L(d)), (lambda d, k: E(d, k)), (lambda d, v: P(d, v))
        return self

    # python protocol
    def length(self, ctx):
        return SInt(self.n)

    def truth(self, ctx):
        return self.n > 0

    def seq_len(self, ctx):
        return self.n

    def seq_at(self, ctx, d):
        return Row(self, d)

    def getitem(self, ctx, idx):
        if not is_intlike(idx):
            raise Unsupported('index %r into a list of lists' % (idx,))
        i = zint(idx)
        if not ctx.branch(z3.And(i >= -self.n, i < self.n)):
            raise PyRaise('IndexError', note='list index out of range (%s)' % self.name)
        return Row(self, z3.simplify(z3.If(i < 0, i + self.n, i)))

    def __repr__(self):
        return 'NestedIntLists<%s n=%s>' % (self.name, self.n)


class Row(Sym):
    """x[d]: a live reference to the d-th inner list."""

    def __init__(self, owner, d):
        self.owner, self.d = owner, d

    def seq_len(self, ctx):
        return self.owner.len_f(self.d)

    def seq_at(self, ctx, k):
        return SInt(self.owner.el_f(self.d, k))

    def length(self, ctx):
        return SInt(self.owner.len_f(self.d))

    def truth(self, ctx):
        return self.owner.len_f(self.d) > 0

    def snapshot(self):
        """(length, sel) of the inner list as it is NOW (for conversions such as numpy.array(list))"""
        o, d = self.owner, self.d
        lf, ef = o.len_f, o.el_f
        return lf(d), (lambda k: ef(d, k))

    def getattr(self, ctx, name):
        if name == 'append':
            def append(ctx, v):
                if not is_intlike(v):
                    raise Unsupported('append of a non-int %r to an inner list' % (v,))
                o, d, e = self.owner, self.d, zint(v)
                lf, ef, pf = o.len_f, o.el_f, o.pos_f
                o.len_f = lambda dd: z3.If(dd == d, lf(dd) + 1, lf(dd))
                o.el_f = lambda dd, k: z3.If(z3.And(dd == d, k == lf(d)), e, ef(dd, k))
                o.pos_f = lambda dd, vv: z3.If(z3.And(dd == d, vv == e), lf(d), pf(dd, vv))
                return None
            return append
        raise Unsupported('list.%s on an inner list of symbolic position' % name)

    def __repr__(self):
        return 'Row<%s[%s]>' % (self.owner.name, self.d)
