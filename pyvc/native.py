"""Bounded stand-ins: a contract whose clauses are checked by exhaustive native enumeration up to a stated bound.
They are labelled `bounded` everywhere and never counted among discharged (unbounded) proof obligations."""
import json, os
import z3
from .contract import Contract, ContractResult
from .core import Obligation
from . import extract

HERE = os.path.dirname(os.path.dirname(os.path.abspath(__file__)))


class NativeBounded(Contract):
    module = None   # native/<module>.py
    call = None     # expression evaluated in it; must print a line  BOUNDED-RESULT {json}
    clauses = ()
    native = True

    @staticmethod
    def script_for(module, call):
        return "import sys; sys.path.insert(0, %r)\nfrom native import %s\n%s.%s\n" % (HERE, module, module, call)

    def run_native(self):
        from .report import run_native
        rc, out, err = run_native(self.script_for(self.module, self.call), timeout=1200)
        res = None
        for line in out.split('\n'):
            if line.startswith('BOUNDED-RESULT '):
                res = json.loads(line[len('BOUNDED-RESULT '):])
        return res, out, err


def generate_native(contract):
    """Run the enumeration and turn each clause into an already-decided bounded obligation."""
    import time
    cr = ContractResult(contract)
    t0 = time.time()
    try:
        cr.fn = contract.function()
    except extract.NotFound as e:
        cr.status, cr.reason = 'undecided', 'function not found: %s' % e
        return cr
    res, out, err = contract.run_native()
    cr.seconds = time.time() - t0
    if res is None:
        cr.status, cr.reason = 'undecided', 'native enumeration produced no result: %s' % (err or out)[-400:]
        return cr
    cr.paths = res.get('cases', 0)
    cr.outcomes = {'cases': res.get('cases', 0)}
    for cl in contract.clauses:
        fails = [f for f in res.get('failures', []) if f.get('clause') == cl]
        ob = Obligation('%s/%s/bounded/%s' % (contract.prop, contract.key(), cl), [], z3.BoolVal(True), 'bounded', fn=contract.key(), clause='bounded:' + cl,
                        path=0, bounded=contract.bounded, info={'cases': res.get('cases'), 'failures': fails[:3]})
        ob.contract = contract
        ob.decided = True
        ob.status = 'refuted' if fails else 'proved'
        ob.backend = 'native exhaustive enumeration (%d cases)' % res.get('cases', 0)
        ob.seconds = cr.seconds / max(1, len(contract.clauses))
        ob.model = {'witness': json.dumps(fails[0])} if fails else None
        ob.replay_script = contract.script_for(contract.module, contract.call)
        ob.output = (out[-600:] if fails else '')
        cr.obligations.append(ob)
    if res.get('cases', 0) == 0:
        cr.status, cr.reason = 'error', 'vacuous: the enumeration covered no case'
    return cr
