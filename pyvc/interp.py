"""Tree-walking symbolic interpreter for the Python subset of DESIGN 2.3."""
import ast
import z3
from . import ops
from .values import (Sym, SBool, SInt, SExt, SReal, SObj, SOpaque, BoundMethod, PyRaise, NeedFork, Unsupported, Lazy,
                     merge, zbool, zint, is_intlike)
from .ops import ClassRef, ExcInstance, Builtin


class _Return(Exception):
    def __init__(self, value):
        self.value = value


class _Break(Exception):
    pass


class _Continue(Exception):
    pass


class LoopCut(Exception):
    """End of a path that was cut at a loop invariant."""


BINOPS = {ast.Add: '+', ast.Sub: '-', ast.Mult: '*', ast.Div: '/', ast.FloorDiv: '//', ast.Mod: '%', ast.Pow: '**',
          ast.MatMult: '@', ast.BitAnd: '&', ast.BitOr: '|', ast.BitXor: '^', ast.LShift: '<<', ast.RShift: '>>'}
CMPOPS = {ast.Lt: '<', ast.LtE: '<=', ast.Gt: '>', ast.GtE: '>=', ast.Eq: '==', ast.NotEq: '!=', ast.Is: 'is',
          ast.IsNot: 'is not', ast.In: 'in', ast.NotIn: 'not in'}

EXC_PARENTS = {
    'BaseException': None, 'Exception': 'BaseException', 'ArithmeticError': 'Exception', 'ZeroDivisionError': 'ArithmeticError',
    'OverflowError': 'ArithmeticError', 'FloatingPointError': 'ArithmeticError',
    'LookupError': 'Exception', 'IndexError': 'LookupError', 'KeyError': 'LookupError', 'ValueError': 'Exception',
    'TypeError': 'Exception', 'AssertionError': 'Exception', 'AttributeError': 'Exception', 'NameError': 'Exception',
    'UnboundLocalError': 'NameError', 'StopIteration': 'Exception', 'RuntimeError': 'Exception',
    'NotImplementedError': 'RuntimeError', 'OSError': 'Exception', 'IOError': 'Exception', 'EOFError': 'Exception',
    'ImportError': 'Exception', 'KeyboardInterrupt': 'BaseException', 'SystemExit': 'BaseException',
    'UnicodeError': 'ValueError', 'RecursionError': 'RuntimeError',
    # engine-level: operations that leave the modelled sorts; no contract may allow them
    'ModelError': None,
}


class ExcClass:
    """An exception class object (builtin or from the repository)."""

    def __init__(self, name, fields=()):
        self.__name__ = name
        self.fields = tuple(fields)  # positional init args stored as attributes

    def __repr__(self):
        return 'ExcClass(%s)' % self.__name__


class Closure:
    def __init__(self, interp, node, env, name=None):
        self.interp, self.node, self.env = interp, node, env
        self.name = name or getattr(node, 'name', '<lambda>')
        self.attrs = {}  # function attributes (`f.current = ...`)

    def __repr__(self):
        return 'Closure(%s)' % self.name


class Env:
    """Local variables with a link to the enclosing function's Env (closures)."""

    def __init__(self, parent=None):
        self.vars = {}
        self.parent = parent
        self.nonlocals = set()

    def lookup(self, name):
        e = self
        while e is not None:
            if name in e.vars:
                return e.vars[name]
            e = e.parent
        raise KeyError(name)

    def has(self, name):
        e = self
        while e is not None:
            if name in e.vars:
                return True
            e = e.parent
        return False

    def store(self, name, value):
        if name in self.nonlocals:
            e = self.parent
            while e is not None:
                if name in e.vars:
                    e.vars[name] = value
                    return
                e = e.parent
        self.vars[name] = value


def get_attribute(ctx, obj, name):
    if isinstance(obj, Sym):
        return obj.getattr(ctx, name)
    if hasattr(obj, 'sym_getattr'):
        return obj.sym_getattr(ctx, name)
    if isinstance(obj, Closure):
        if name in obj.attrs:
            return obj.attrs[name]
        raise PyRaise('AttributeError', note='function %s has no attribute %r' % (obj.name, name))
    if isinstance(obj, ClassRef):
        if name in obj.attrs:
            return obj.attrs[name]
        if name == '__name__':
            return obj.__name__
        raise Unsupported('class attribute %s.%s not modelled' % (obj.__name__, name))
    if isinstance(obj, dict) and name in ('get', 'items', 'keys', 'values', 'setdefault', 'pop', 'copy', 'update'):
        return DictMethod(obj, name)
    if isinstance(obj, list) and name in ('append', 'extend', 'pop', 'index', 'insert', 'copy', 'count', 'reverse', 'sort', 'remove'):
        return ListMethod(obj, name)
    if isinstance(obj, tuple) and name in ('index', 'count'):
        return ListMethod(obj, name)
    if isinstance(obj, (tuple, list)) and name == '__getitem__':
        return lambda ctx, i: ops.getitem(ctx, obj, i)
    if isinstance(obj, (set,)) and name in ('add', 'discard', 'remove', 'update', 'copy'):
        return SetMethod(obj, name)
    if isinstance(obj, int) and not isinstance(obj, bool) and name == '__index__':
        return lambda ctx: obj
    if isinstance(obj, float) and name == 'is_integer':
        return lambda ctx: obj.is_integer()
    if isinstance(obj, slice):
        if name in ('start', 'stop', 'step'):
            return getattr(obj, name)
        if name == 'indices':
            return lambda ctx, n: slice_indices(ctx, obj, n)
    if isinstance(obj, str):
        if name == 'encode':
            return lambda ctx, *a: obj.encode()
        if name in ('format', 'join'):
            ctx.dropped.add('str.' + name)

            def fmt(ctx, *a, **k):
                if name == 'join' and len(a) == 1 and (isinstance(a[0], (tuple, list)) or hasattr(a[0], 'sym_iterate') or hasattr(a[0], 'lazy_items')):
                    from .small import IdxStr
                    from .tokstr import TokStr
                    items = ops.iterate(ctx, a[0])  # a generator argument is consumed (its element expressions are evaluated)
                    if not items:
                        return ''  # sep.join(()) == ''
                    if all(isinstance(x, str) for x in items):
                        return obj.join(items)  # concrete strings: exact
                    if any(isinstance(x, Sym) and IdxStr.chars_of(x) is not None for x in items):
                        return IdxStr.join(ctx, obj, items)  # strings of symbolic characters: exact concatenation
                    if any(isinstance(y, TokStr) for y in items):
                        return TokStr.of(obj).m_join(ctx, items)  # token strings (pyvc/tokstr.py): exact concatenation
                    return SOpaque('str')
                hook = getattr(ctx, 'format_hook', None)
                if hook is not None and name == 'format':
                    return hook(obj, a, k)
                for x in a:
                    if hasattr(x, 'sym_iterate') or hasattr(x, 'lazy_items'):
                        ops.iterate(ctx, x)  # a generator argument is consumed (its element expressions are evaluated)
                return SOpaque('str')
            return fmt
        if name in ('lstrip', 'rstrip', 'strip', 'split', 'rsplit', 'partition', 'rpartition', 'startswith', 'endswith', 'upper', 'lower', 'isdigit', 'ljust', 'rjust'):
            def strmethod(ctx, *a):
                # a pure method of a CONCRETE str on concrete arguments: evaluated exactly
                if not all(isinstance(x, (str, int, tuple)) or x is None for x in a):
                    raise Unsupported('str.%s with a symbolic argument' % name)
                try:
                    r = getattr(obj, name)(*a)
                except (TypeError, ValueError) as e:
                    raise ops.pyraise_from(e)
                return list(r) if isinstance(r, list) else r
            return strmethod
        raise Unsupported('str method %s' % name)
    if obj is None or isinstance(obj, (bool, int, float)):
        raise PyRaise('AttributeError', note='%r object has no attribute %r' % (type(obj).__name__, name))
    raise Unsupported('attribute %s of %s' % (name, type(obj).__name__))


def slice_indices(ctx, s, n):
    """slice.indices(n) for step None/1 with symbolic bounds (CPython semantics)."""
    if not (s.step is None or (isinstance(s.step, int) and s.step == 1)):
        if any(isinstance(x, Sym) for x in (s.start, s.stop, s.step, n)):
            raise Unsupported('slice.indices with a symbolic non-unit step')
        return slice(s.start, s.stop, s.step).indices(n)
    nn = zint(n)

    def clamp(x, default):
        if x is None:
            return default
        v = zint(x)
        v = z3.If(v < 0, v + nn, v)
        return z3.If(v < 0, 0, z3.If(v > nn, nn, v))
    return (SInt(z3.simplify(clamp(s.start, z3.IntVal(0)))), SInt(z3.simplify(clamp(s.stop, nn))), 1)


class DictMethod:
    def __init__(self, d, name):
        self.d, self.name = d, name

    def __call__(self, ctx, *a, **k):
        d = self.d
        symbolic = any(isinstance(x, Sym) for x in a[:1]) or any(isinstance(k, Sym) for k in d)
        if symbolic and self.name == 'get':
            k = ops.dict_find(ctx, d, a[0])
            return d[k] if k is not ops._MISSING else (a[1] if len(a) > 1 else None)
        if symbolic and self.name in ('pop', 'setdefault'):
            raise Unsupported('dict.%s with symbolic key' % self.name)
        if self.name == 'get':
            return d.get(*a)
        if self.name == 'items':
            return list(d.items())
        if self.name == 'keys':
            return list(d.keys())
        if self.name == 'values':
            return list(d.values())
        if self.name == 'setdefault':
            return d.setdefault(*a)
        if self.name == 'copy':
            return dict(d)
        if self.name == 'update':
            d.update(*a, **k)
            return None
        if self.name == 'pop':
            try:
                return d.pop(*a)
            except KeyError:
                raise PyRaise('KeyError')


class ListMethod:
    def __init__(self, l, name):
        self.l, self.name = l, name

    def __call__(self, ctx, *a, **k):
        l = self.l
        if self.name == 'append':
            l.append(a[0])
        elif self.name == 'extend':
            l.extend(ops.iterate(ctx, a[0]))
        elif self.name == 'pop':
            try:
                return l.pop(*a)
            except IndexError:
                raise PyRaise('IndexError')
        elif self.name == 'insert':
            l.insert(*a)
        elif self.name == 'copy':
            return list(l)
        elif self.name == 'reverse':
            l.reverse()
        elif self.name == 'index':
            for i, x in enumerate(l):
                r = ops.compare(ctx, '==', x, a[0])
                if ctx.branch(zbool(r) if not isinstance(r, bool) else r):
                    return i
            raise PyRaise('ValueError', note='not in sequence')
        elif self.name == 'remove':
            # list.remove(x): delete the first item equal to x, ValueError if there is none (exact; forks on symbolic equality)
            for i, x in enumerate(l):
                r = ops.compare(ctx, '==', x, a[0])
                if ctx.branch(zbool(r) if not isinstance(r, bool) else r):
                    del l[i]
                    return None
            raise PyRaise('ValueError', note='list.remove(x): x not in list')
        elif self.name == 'count':
            r = 0
            for x in l:
                c = ops.compare(ctx, '==', x, a[0])
                r = ops.binop(ctx, '+', r, c if isinstance(c, bool) else SBool(zbool(c)).as_int())
            return r
        else:
            raise Unsupported('list.' + self.name)
        return None


class SetMethod:
    def __init__(self, s, name):
        self.s, self.name = s, name

    def __call__(self, ctx, *a):
        if any(isinstance(x, Sym) for x in a):
            raise Unsupported('set.%s with symbolic item' % self.name)
        if self.name == 'add':
            self.s.add(a[0])
        elif self.name == 'discard':
            self.s.discard(a[0])
        elif self.name == 'remove':
            try:
                self.s.remove(a[0])
            except KeyError:
                raise PyRaise('KeyError')
        elif self.name == 'update':
            self.s.update(ops.iterate(ctx, a[0]))
        elif self.name == 'copy':
            return set(self.s)
        return None


class SuperProxy(Sym):
    def __init__(self, interp, selfobj):
        self.interp, self.selfobj = interp, selfobj

    def getattr(self, ctx, name):
        key = 'super().' + name
        if isinstance(self.selfobj, SObj):
            if key in self.selfobj.methods:
                return BoundMethod(self.selfobj, self.selfobj.methods[key], key)
            if key in self.selfobj.attrs:
                v = self.selfobj.attrs[key]
                if isinstance(v, Lazy):  # computed on first use, like SObj.getattr
                    v = self.selfobj.attrs[key] = v.force(ctx)
                return v
        raise Unsupported('%s is not modelled for %r' % (key, self.selfobj))


class Loop:
    """Loop contract: invariant(cx, env[, i]) -> z3 Bool; optional decreases(cx, env) -> z3 Int term."""

    def __init__(self, invariant, decreases=None, havoc=None, label=None, extra_modifies=(), on_havoc=None, match=None, on_body=None, on_exit=None):
        self.on_exit = on_exit  # callback(cx, env, how): the loop is left by `break` (how='break') or by its guard (how='guard'); may emit obligations
        self.on_body = on_body  # callback(cx, env, i): intermediate lemmas at the start of the loop body (cx.lemma)
        self.match = match  # substring of the loop header (`for x in y` / `while cond`) this contract belongs to
        self.on_havoc = on_havoc  # callback(cx, env): havoc ghost state the loop body may change
        self.invariant = invariant
        self.decreases = decreases
        self.havoc = havoc or {}
        self.label = label
        self.extra_modifies = tuple(extra_modifies)


def _own_nodes(fn):
    """AST nodes of a function body excluding nested function/lambda bodies."""
    stack = list(fn.body)
    while stack:
        n = stack.pop()
        yield n
        if isinstance(n, (ast.FunctionDef, ast.AsyncFunctionDef, ast.Lambda, ast.ClassDef)):
            continue  # a def directly in the body: its yields belong to that inner function
        for c in ast.iter_child_nodes(n):
            if isinstance(c, (ast.FunctionDef, ast.AsyncFunctionDef, ast.Lambda, ast.ClassDef)):
                continue
            stack.append(c)


def assigned_names(stmts):
    """Names (and subscripted base names) written anywhere in stmts."""
    out = []

    def tgt(t):
        if isinstance(t, ast.Name):
            out.append(t.id)
        elif isinstance(t, (ast.Tuple, ast.List)):
            for e in t.elts:
                tgt(e)
        elif isinstance(t, ast.Starred):
            tgt(t.value)
        elif isinstance(t, (ast.Subscript, ast.Attribute)):
            b = t
            while isinstance(b, (ast.Subscript, ast.Attribute)):
                b = b.value
            if isinstance(b, ast.Name):
                out.append(b.id)

    for s in stmts:
        for n in ast.walk(s):
            if isinstance(n, ast.Assign):
                for t in n.targets:
                    tgt(t)
            elif isinstance(n, (ast.AugAssign, ast.AnnAssign)):
                tgt(n.target)
            elif isinstance(n, (ast.For, ast.comprehension)):
                if isinstance(n, ast.For):
                    tgt(n.target)
            elif isinstance(n, ast.NamedExpr):
                tgt(n.target)
            elif isinstance(n, ast.With):
                for it in n.items:
                    if it.optional_vars is not None:
                        tgt(it.optional_vars)
            elif isinstance(n, ast.Call) and isinstance(n.func, ast.Attribute) and n.func.attr in ('append', 'extend', 'add', 'update', 'pop', 'discard', 'remove', 'insert', 'setdefault') and isinstance(n.func.value, ast.Name):
                out.append(n.func.value.id)
    seen = []
    for x in out:
        if x not in seen:
            seen.append(x)
    return seen


def fresh_like(ctx, v, name):
    if isinstance(v, bool) or isinstance(v, SBool):
        return SBool(ctx.bool(name, report=False))
    if is_intlike(v):
        return SInt(ctx.int(name, report=False))
    if isinstance(v, SExt):
        return SExt(ctx.int(name + '.t', report=False), ctx.int(name + '.v', report=False))
    if isinstance(v, SReal) or isinstance(v, float):
        return SReal(ctx.real(name, report=False))
    if hasattr(v, 'havoc'):
        return v.havoc(ctx, name)
    if isinstance(v, tuple):
        return tuple(fresh_like(ctx, x, '%s.%d' % (name, i)) for i, x in enumerate(v))
    raise Unsupported('cannot havoc %s of sort %s; give the loop contract a havoc entry' % (name, type(v).__name__))


SHADOW_OK = set()  # names a contract module may whitelist when the module-level definition IS the builtin (e.g. re-exported)


class Interp:
    def __init__(self, ctx, globals_, module=None, loops=None, exc_parents=None, fnname='', module_names=None, exact=False, unroll_while=0):
        self.ctx = ctx
        self.unroll_while = unroll_while  # 0: a while loop with a symbolic guard needs an invariant
        self.exact = exact  # float literals and int/int division are exact rationals (machine arithmetic as mathematical)
        self.globals = globals_
        self.module = module
        self.loops = loops or {}
        self.exc_parents = dict(EXC_PARENTS)
        if exc_parents:
            self.exc_parents.update(exc_parents)
        self.loop_counter = 0
        self.loop_ids = {}
        self.current_exc = None
        self.module_names = module_names or set()
        self.fnname = fnname
        self.local_repr = {}  # local name -> f(ctx, value) -> value: representation chosen by the contract for that local
        self.sym_unpack = False  # opt-in (contract.sym_unpack): unpack a sequence of symbolic length into a fixed number of targets by forking on its length

    # ------------------------------------------------------------ exceptions
    def exc_isa(self, name, target):
        base = name.split(':')[0]
        seen = 0
        while base is not None and seen < 50:
            if base == target:
                return True
            base = self.exc_parents.get(base, 'Exception' if base not in self.exc_parents else None)
            if base == 'Exception' and target == 'Exception':
                return True
            seen += 1
        return False

    def make_exc(self, ctx, cls, args, kwargs):
        name = cls.__name__
        attrs = {}
        for f, a in zip(cls.fields, args):
            attrs[f] = a
        return ExcInstance(name, args, attrs)

    # ------------------------------------------------------------ functions
    def bind(self, node, env, args, kwargs):
        a = node.args
        params = [p.arg for p in a.posonlyargs + a.args]
        kwargs = dict(kwargs)
        args = list(args)
        ndefaults = len(a.defaults)
        for i, p in enumerate(params):
            if i < len(args):
                env.vars[p] = args[i]
                if p in kwargs:
                    raise PyRaise('TypeError', note='multiple values for ' + p)
            elif p in kwargs:
                env.vars[p] = kwargs.pop(p)
            else:
                j = i - (len(params) - ndefaults)
                if j >= 0:
                    env.vars[p] = self.expr(a.defaults[j], env.parent or Env())
                else:
                    raise PyRaise('TypeError', note='missing argument ' + p)
        extra = args[len(params):]
        if a.vararg:
            env.vars[a.vararg.arg] = tuple(extra)
        elif extra:
            raise PyRaise('TypeError', note='too many positional arguments')
        for p, d in zip(a.kwonlyargs, a.kw_defaults):
            if p.arg in kwargs:
                env.vars[p.arg] = kwargs.pop(p.arg)
            elif d is not None:
                env.vars[p.arg] = self.expr(d, env.parent or Env())
            else:
                raise PyRaise('TypeError', note='missing keyword argument ' + p.arg)
        if a.kwarg:
            env.vars[a.kwarg.arg] = kwargs
        elif kwargs:
            raise PyRaise('TypeError', note='unexpected keyword arguments %s' % sorted(kwargs))

    def index_loops(self, node):
        """Static ordinals of the while/for statements of the function under contract, in source order."""
        k = 0
        stack = list(reversed(node.body))
        order = []

        def visit(stmts):
            for st in stmts:
                if isinstance(st, (ast.FunctionDef, ast.ClassDef, ast.AsyncFunctionDef)):
                    continue
                if isinstance(st, (ast.While, ast.For)):
                    order.append(st)
                for field in ('body', 'orelse', 'finalbody', 'handlers'):
                    sub = getattr(st, field, None)
                    if sub:
                        visit([h for h in sub] if field != 'handlers' else [x for h in sub for x in h.body])
        visit(node.body)
        base = len(self.loop_ids)
        for i, st in enumerate(order):
            self.loop_ids.setdefault(id(st), base + i)

    def call_function(self, node, args=(), kwargs=None, closure_env=None, yield_sink=None):
        """yield_sink: for a generator function, an object whose .append(v) is called AT each `yield v` (continuation
        style: whatever append does happens at the yield point, an exception it raises is raised there); default: the
        yielded values are collected eagerly into a list."""
        env = Env(closure_env)
        self.bind(node, env, args, kwargs or {})
        if isinstance(node, ast.Lambda):
            return self.expr(node.body, env)
        if any(isinstance(n, (ast.Yield, ast.YieldFrom)) for n in _own_nodes(node)):
            # generator function: evaluated eagerly into the list of yielded values (assumes the consumer
            # exhausts it at once and does not interleave effects; a raise surfaces at the call)
            self.ctx.dropped.add('generator evaluated eagerly: ' + node.name)
            env.vars['__yields__'] = ys = yield_sink if yield_sink is not None else []
            try:
                self.block(node.body, env)
            except _Return:
                pass
            except PyRaise as e:
                if not hasattr(e, 'partial_yields'):
                    e.partial_yields = ys  # what was yielded before the generator raised
                raise
            return ys
        try:
            self.block(node.body, env)
        except _Return as r:
            return r.value
        return None

    def call(self, f, args, kwargs):
        ctx = self.ctx
        if isinstance(f, Closure):
            return f.interp.call_function(f.node, args, kwargs, f.env)
        if isinstance(f, Sym):
            return f.call(ctx, args, kwargs)
        if isinstance(f, Builtin):
            if f.fn is None:
                raise Unsupported('builtin %s is not modelled' % f.name)
            return f.fn(ctx, *args, **kwargs)
        if isinstance(f, ExcClass):
            return self.make_exc(ctx, f, args, kwargs)
        if isinstance(f, ClassRef):
            if f.construct is None:
                raise Unsupported('constructor of %s is not modelled' % f.__name__)
            return f.construct(ctx, *args, **kwargs)
        if isinstance(f, (ops.ClassRef,)):
            raise Unsupported('call of %r' % f)
        if callable(f):
            return f(ctx, *args, **kwargs)
        raise PyRaise('TypeError', note='not callable: %r' % (f,))

    # ------------------------------------------------------------ statements
    def block(self, stmts, env):
        for s in stmts:
            self.stmt(s, env)

    def stmt(self, s, env):
        ctx = self.ctx
        m = getattr(self, 'st_' + type(s).__name__, None)
        if m is None:
            raise Unsupported('statement %s (line %d)' % (type(s).__name__, s.lineno))
        return m(s, env)

    def st_Expr(self, s, env):
        if isinstance(s.value, ast.Constant):
            return  # docstring
        self.expr(s.value, env)

    def st_Pass(self, s, env):
        pass

    def st_Global(self, s, env):
        raise Unsupported('global statement')

    def st_Nonlocal(self, s, env):
        env.nonlocals.update(s.names)

    def st_Import(self, s, env):
        for a in s.names:
            nm = (a.asname or a.name).split('.')[0]
            env.vars[nm] = self.lookup_global(nm)

    def st_ImportFrom(self, s, env):
        for a in s.names:
            nm = a.asname or a.name
            env.vars[nm] = self.lookup_global(nm)

    def st_Assign(self, s, env):
        v = self.expr(s.value, env)
        for t in s.targets:
            self.assign(t, v, env)

    def st_AnnAssign(self, s, env):
        if s.value is not None:
            self.assign(s.target, self.expr(s.value, env), env)

    def st_AugAssign(self, s, env):
        op = BINOPS[type(s.op)]
        t = s.target
        if isinstance(t, ast.Name):
            cur = self.load_name(t.id, env)
            rhs = self.expr(s.value, env)
            if hasattr(cur, 'sym_iop'):
                r = cur.sym_iop(self.ctx, op, rhs)
                if r is not NotImplemented:
                    env.store(t.id, r)
                    return
            if isinstance(cur, list) and op == '+':
                cur.extend(ops.iterate(self.ctx, rhs))
                return
            env.store(t.id, ops.binop(self.ctx, op, cur, rhs))
        elif isinstance(t, ast.Subscript):
            obj = self.expr(t.value, env)
            idx = self.index(t.slice, env)
            rhs = self.expr(s.value, env)
            if hasattr(obj, 'sym_isetitem'):
                r = obj.sym_isetitem(self.ctx, idx, op, rhs)
                if r is not NotImplemented:
                    return
            cur = ops.getitem(self.ctx, obj, idx)
            ops.setitem(self.ctx, obj, idx, ops.binop(self.ctx, op, cur, rhs))
        elif isinstance(t, ast.Attribute):
            obj = self.expr(t.value, env)
            cur = get_attribute(self.ctx, obj, t.attr)
            rhs = self.expr(s.value, env)
            self.set_attribute(obj, t.attr, ops.binop(self.ctx, op, cur, rhs))
        else:
            raise Unsupported('augmented assignment target')

    def set_attribute(self, obj, name, value):
        if isinstance(obj, Sym):
            return obj.setattr(self.ctx, name, value)
        if hasattr(obj, 'sym_setattr'):
            return obj.sym_setattr(self.ctx, name, value)
        if isinstance(obj, Closure):
            obj.attrs[name] = value
            return None
        raise Unsupported('attribute store on %s' % type(obj).__name__)

    def assign(self, t, v, env):
        if isinstance(t, ast.Name):
            hook = self.local_repr.get(t.id) if self.local_repr else None
            if hook is not None:
                # the contract chose another EXACT representation for the values bound to this local (e.g. a list literal that
                # later grows by a symbolic number of items becomes a symbolic list); the hook returns v unchanged otherwise
                v = hook(self.ctx, v)
            env.store(t.id, v)
        elif isinstance(t, (ast.Tuple, ast.List)):
            star = [i for i, e in enumerate(t.elts) if isinstance(e, ast.Starred)]
            try:
                items = ops.iterate(self.ctx, v)
            except Unsupported:
                # unpacking a sequence of symbolic length into a fixed number of targets: ValueError unless the lengths agree
                if star or not self.sym_unpack or not (isinstance(v, Sym) and hasattr(v, 'seq_len') and hasattr(v, 'seq_at')):
                    raise
                if not self.ctx.branch(v.seq_len(self.ctx) == len(t.elts)):
                    raise PyRaise('ValueError', note='unpack a sequence of another length into %d targets' % len(t.elts))
                items = [v.seq_at(self.ctx, z3.IntVal(k)) for k in range(len(t.elts))]
            if star:
                k = star[0]
                nafter = len(t.elts) - k - 1
                if len(items) < len(t.elts) - 1:
                    raise PyRaise('ValueError', note='not enough values to unpack')
                for e, x in zip(t.elts[:k], items[:k]):
                    self.assign(e, x, env)
                self.assign(t.elts[k].value, list(items[k:len(items) - nafter]), env)
                for e, x in zip(t.elts[k + 1:], items[len(items) - nafter:]):
                    self.assign(e, x, env)
            else:
                if len(items) != len(t.elts):
                    raise PyRaise('ValueError', note='unpack %d values into %d targets' % (len(items), len(t.elts)))
                for e, x in zip(t.elts, items):
                    self.assign(e, x, env)
        elif isinstance(t, ast.Subscript):
            obj = self.expr(t.value, env)
            ops.setitem(self.ctx, obj, self.index(t.slice, env), v)
        elif isinstance(t, ast.Attribute):
            self.set_attribute(self.expr(t.value, env), t.attr, v)
        else:
            raise Unsupported('assignment target %s' % type(t).__name__)

    def st_Delete(self, s, env):
        for t in s.targets:
            if isinstance(t, ast.Name):
                env.vars.pop(t.id, None)
            elif isinstance(t, ast.Subscript):
                obj = self.expr(t.value, env)
                idx = self.index(t.slice, env)
                if isinstance(obj, (dict, list)) and not isinstance(idx, Sym):
                    try:
                        del obj[idx]
                    except (KeyError, IndexError) as e:
                        raise ops.pyraise_from(e)
                else:
                    raise Unsupported('del on symbolic container')
            else:
                raise Unsupported('del target')

    def st_Return(self, s, env):
        raise _Return(self.expr(s.value, env) if s.value is not None else None)

    def st_If(self, s, env):
        c = self.cond(s.test, env)
        if self.ctx.branch(c):
            self.block(s.body, env)
        else:
            self.block(s.orelse, env)

    def st_Assert(self, s, env):
        c = self.cond(s.test, env)
        if not self.ctx.branch(c):
            e = PyRaise('AssertionError', note='line %d: %s' % (s.lineno, ast.unparse(s.test)[:80]))
            e.env = env  # the local variables at the raise (contracts may state the exceptional postcondition over them)
            raise e

    def st_Raise(self, s, env):
        if s.exc is None:
            if self.current_exc is None:
                raise PyRaise('RuntimeError', note='bare raise outside handler')
            raise self.current_exc
        v = self.expr(s.exc, env)
        if isinstance(v, ExcClass):
            v = self.make_exc(self.ctx, v, (), {})
        if isinstance(v, ExcInstance):
            e = PyRaise(v.cls, payload=v, note='line %d' % s.lineno)
            e.env = env  # the local variables at the raise (contracts may state the exceptional postcondition over them)
            raise e
        if isinstance(v, Sym) and hasattr(v, 'as_exception'):
            raise v.as_exception(self.ctx)
        raise Unsupported('raise of %r' % (v,))

    def st_Try(self, s, env):
        try:
            try:
                self.block(s.body, env)
            except PyRaise as e:
                handled = False
                for h in s.handlers:
                    if self.handler_matches(h, e, env):
                        handled = True
                        if h.name:
                            env.store(h.name, e.payload if e.payload is not None else ExcInstance(e.exc, ()))
                        saved = self.current_exc
                        self.current_exc = e
                        try:
                            self.block(h.body, env)
                        finally:
                            self.current_exc = saved
                        break
                if not handled:
                    raise
            else:
                self.block(s.orelse, env)
        finally:
            if s.finalbody:
                self.block(s.finalbody, env)

    def handler_matches(self, h, e, env):
        if e.exc.startswith('ModelError'):
            return False
        if h.type is None:
            return True
        t = self.expr(h.type, env)
        ts = t if isinstance(t, tuple) else (t,)
        for x in ts:
            nm = getattr(x, '__name__', None) or (x.name if isinstance(x, Builtin) else None)
            if nm is None:
                raise Unsupported('except clause target %r' % (x,))
            if self.exc_isa(e.exc, nm):
                return True
        return False

    def st_With(self, s, env):
        exits = []
        for it in s.items:
            cm = self.expr(it.context_expr, env)
            if hasattr(cm, 'sym_enter'):
                v = cm.sym_enter(self.ctx)
                exits.append(cm)
            else:
                self.ctx.dropped.add('with ' + ast.unparse(it.context_expr)[:40])
                v = cm
            if it.optional_vars is not None:
                self.assign(it.optional_vars, v, env)
        try:
            self.block(s.body, env)
        finally:
            for cm in reversed(exits):
                cm.sym_exit(self.ctx)

    def st_FunctionDef(self, s, env):
        env.store(s.name, Closure(self, s, env))

    def st_Break(self, s, env):
        raise _Break()

    def st_Continue(self, s, env):
        raise _Continue()

    # ---- loops
    def loop_contract(self, node=None):
        k = self.loop_ids.get(id(node))
        if k is None:
            return -1, None
        if isinstance(node, ast.For):
            header = 'for %s in %s' % (ast.unparse(node.target), ast.unparse(node.iter))
        else:
            header = 'while %s' % ast.unparse(node.test)
        def _m(lc):
            m = getattr(lc, 'match', None)
            if not m:
                return False
            if callable(m):  # match(node, header) -> bool: for loops whose headers coincide (`while True`)
                return bool(m(node, header))
            return any(x in header for x in ((m,) if isinstance(m, str) else m))
        matched = [lc for lc in self.loops.values() if _m(lc)]
        if matched:
            return k, matched[0]
        lc = self.loops.get(k)
        if lc is not None and getattr(lc, 'match', None):
            # the contract written for this position names a different loop header: the code was restructured
            return k, None
        return k, lc

    def st_While(self, s, env):
        k, lc = self.loop_contract(s)
        ctx = self.ctx
        if lc is None:
            # no invariant: only loops whose guard becomes concrete can be unrolled
            n = 0
            while True:
                c = self.cond(s.test, env)
                if isinstance(c, bool):
                    go = c
                else:
                    cs = z3.simplify(zbool(c))
                    if z3.is_true(cs):
                        go = True
                    elif z3.is_false(cs):
                        go = False
                    elif self.unroll_while and n < self.unroll_while:
                        # opt-in (contract.unroll_while = N): exact path split on the guard, at most N iterations per
                        # loop; used where the trip count is bounded by a concrete structure (rank) of the inputs
                        go = ctx.branch(cs)
                    else:
                        raise Unsupported('while loop #%d (line %d) has a symbolic guard and no invariant in the contract' % (k, s.lineno))
                if not go:
                    self.block(s.orelse, env)
                    return
                n += 1
                if n > 256:
                    raise Unsupported('while loop unrolled more than 256 times')
                try:
                    self.block(s.body, env)
                except _Break:
                    return
                except _Continue:
                    continue
        label = lc.label or 'loop%d' % k
        ctx.inv_mode = 'goal'
        ctx.oblige('%s:init' % label, lc.invariant(ctx, env), info={'line': s.lineno})
        for nm in list(assigned_names(s.body + [ast.Expr(s.test)])) + list(lc.extra_modifies):
            if nm in lc.havoc:
                env.store(nm, lc.havoc[nm](ctx, env))
            elif env.has(nm):
                env.store(nm, fresh_like(ctx, env.lookup(nm), '%s@%s' % (nm, label)))
        if lc.on_havoc:
            lc.on_havoc(ctx, env)
        ctx.inv_mode = 'assume'
        ctx.assume(lc.invariant(ctx, env))
        ctx.inv_mode = 'goal'
        if ctx.branch(self.cond(s.test, env)):
            m0 = lc.decreases(ctx, env) if lc.decreases else None
            try:
                self.block(s.body, env)
            except _Break:
                if lc.on_exit:
                    lc.on_exit(ctx, env, 'break')
                return
            except _Continue:
                pass
            ctx.oblige('%s:preserve' % label, lc.invariant(ctx, env), info={'line': s.lineno})
            if m0 is not None:
                m1 = lc.decreases(ctx, env)
                ctx.oblige('%s:decreases' % label, z3.And(m0 >= 0, m1 < m0), info={'line': s.lineno})
            raise LoopCut()
        if lc.on_exit:
            lc.on_exit(ctx, env, 'guard')
        self.block(s.orelse, env)

    def st_For(self, s, env):
        k, lc = self.loop_contract(s)
        ctx = self.ctx
        it = self.expr(s.iter, env)
        if lc is None:
            items = ops.iterate(ctx, it)
            for x in items:
                self.assign(s.target, x, env)
                try:
                    self.block(s.body, env)
                except _Break:
                    return
                except _Continue:
                    continue
            self.block(s.orelse, env)
            return
        # invariant-carrying loop over a sequence of symbolic length
        if isinstance(it, LazyGen):
            m = it.as_mapped(ctx)
            if m is not None:
                it = m
        if not hasattr(it, 'seq_len'):
            raise Unsupported('for loop #%d: iterable %r has no symbolic sequence interface' % (k, it))
        label = lc.label or 'loop%d' % k
        n = it.seq_len(ctx)
        ctx.loop_iterable = it
        ctx.inv_mode = 'goal'
        ctx.oblige('%s:init' % label, lc.invariant(ctx, env, z3.IntVal(0)), info={'line': s.lineno})
        for nm in list(assigned_names(s.body)) + list(lc.extra_modifies):
            if nm in lc.havoc:
                env.store(nm, lc.havoc[nm](ctx, env))
            elif env.has(nm):
                env.store(nm, fresh_like(ctx, env.lookup(nm), '%s@%s' % (nm, label)))
        if lc.on_havoc:
            lc.on_havoc(ctx, env)
        i = ctx.int('i@' + label, report=False)
        ctx.assume(z3.And(i >= 0, i <= n))
        ctx.inv_mode = 'assume'
        ctx.assume(lc.invariant(ctx, env, i))
        ctx.inv_mode = 'goal'
        if ctx.branch(i < n):
            self.assign(s.target, it.seq_at(ctx, i), env)
            if lc.on_body:
                lc.on_body(ctx, env, i)
            try:
                self.block(s.body, env)
            except _Break:
                if lc.on_exit:
                    lc.on_exit(ctx, env, 'break')
                return
            except _Continue:
                pass
            ctx.oblige('%s:preserve' % label, lc.invariant(ctx, env, i + 1), info={'line': s.lineno})
            raise LoopCut()
        if lc.on_exit:
            lc.on_exit(ctx, env, 'guard')
        self.block(s.orelse, env)

    # ------------------------------------------------------------ expressions
    def cond(self, node, env):
        """Evaluate a test expression to bool | z3 Bool."""
        v = self.expr(node, env)
        return ops.truth(self.ctx, v)

    def expr(self, n, env):
        m = getattr(self, 'ex_' + type(n).__name__, None)
        if m is None:
            raise Unsupported('expression %s (line %d)' % (type(n).__name__, getattr(n, 'lineno', 0)))
        return m(n, env)

    def ex_Constant(self, n, env):
        if self.exact and isinstance(n.value, float):
            from fractions import Fraction
            return Fraction(repr(n.value))
        return n.value

    def lookup_global(self, name):
        if name in self.globals:
            return self.globals[name]
        if name in ops.BUILTINS or name in ops.TYPE_OF_BUILTIN:
            if name in self.module_names and name not in SHADOW_OK:
                # the module under contract defines this name itself (evaluable.py has its own sum, abs, divmod, ...): Python resolves the
                # module-level definition, not the builtin; the contract has to supply a model of it (silently using the builtin is unsound)
                raise Unsupported('module-level name %r shadows the builtin and is not modelled by the contract' % name)
            return Builtin(name)
        if name in self.exc_parents:
            return ExcClass(name)
        if name in ('True', 'False', 'None'):
            return {'True': True, 'False': False, 'None': None}[name]
        if name == 'Ellipsis':
            return Ellipsis
        if name == 'NotImplemented':
            return NotImplemented
        if name in self.module_names or hasattr(__import__('builtins'), name):
            raise Unsupported('global name %r is not modelled by the contract' % name)
        raise PyRaise('NameError', note='name %r is not defined' % name)

    def load_name(self, name, env):
        try:
            return env.lookup(name)
        except KeyError:
            pass
        return self.lookup_global(name)

    def ex_Name(self, n, env):
        return self.load_name(n.id, env)

    def ex_Tuple(self, n, env):
        out = []
        for e in n.elts:
            if isinstance(e, ast.Starred):
                out.extend(ops.iterate(self.ctx, self.expr(e.value, env)))
            else:
                out.append(self.expr(e, env))
        return tuple(out)

    def ex_List(self, n, env):
        return list(self.ex_Tuple(n, env))

    def ex_Set(self, n, env):
        xs = self.ex_Tuple(n, env)
        if ops.has_sym(xs):
            for x in xs:
                if hasattr(x, 'sym_set_of'):  # opt-in: the element's domain builds the set value (pyvc/symset.py)
                    return x.sym_set_of(self.ctx, xs)
            raise Unsupported('set display of symbolic items')
        return set(xs)

    def ex_Dict(self, n, env):
        d = {}
        for k, v in zip(n.keys, n.values):
            if k is None:
                d.update(self.expr(v, env))
            else:
                kk = self.expr(k, env)
                ops.setitem(self.ctx, d, kk, self.expr(v, env))
        return d

    def ex_Attribute(self, n, env):
        obj = self.expr(n.value, env)
        return get_attribute(self.ctx, obj, n.attr)

    def index(self, sl, env):
        if isinstance(sl, ast.Slice):
            return slice(self.expr(sl.lower, env) if sl.lower else None, self.expr(sl.upper, env) if sl.upper else None,
                         self.expr(sl.step, env) if sl.step else None)
        if isinstance(sl, ast.Tuple):
            return tuple(self.index(e, env) for e in sl.elts)
        return self.expr(sl, env)

    def ex_Subscript(self, n, env):
        obj = self.expr(n.value, env)
        return ops.getitem(self.ctx, obj, self.index(n.slice, env))

    def ex_Slice(self, n, env):
        return self.index(n, env)

    def ex_UnaryOp(self, n, env):
        v = self.expr(n.operand, env)
        op = {ast.USub: '-', ast.UAdd: '+', ast.Invert: '~', ast.Not: 'not'}[type(n.op)]
        return ops.unop(self.ctx, op, v)

    def ex_BinOp(self, n, env):
        a = self.expr(n.left, env)
        b = self.expr(n.right, env)
        if self.exact and isinstance(n.op, ast.Div) and isinstance(a, int) and isinstance(b, int) and not isinstance(a, bool) and b != 0:
            from fractions import Fraction
            return Fraction(a, b)
        return ops.binop(self.ctx, BINOPS[type(n.op)], a, b)

    def ex_Compare(self, n, env):
        ctx = self.ctx
        left = self.expr(n.left, env)
        parts = []
        for i, (op, rn) in enumerate(zip(n.ops, n.comparators)):
            right = self.expr(rn, env)
            r = ops.compare(ctx, CMPOPS[type(op)], left, right)
            if len(n.ops) == 1:
                return r
            if r is False:
                return False
            if r is not True:
                if not isinstance(r, SBool):
                    t = ops.truth(ctx, r)
                    r = t if isinstance(t, bool) else SBool(t)
                if r is False:
                    return False
                if r is not True:
                    # chained comparison short-circuits; later operands here are side-effect free
                    # expressions in the supported subset only if they can be evaluated in merge mode
                    parts.append(r.b)
            left = right
        if not parts:
            return True
        return SBool(z3.And(*parts))

    def _pure(self, extra):
        ctx = self.ctx

        class P:
            def __enter__(s):
                ctx.pure += 1
                ctx.pure_extra.append(extra)

            def __exit__(s, *a):
                ctx.pure -= 1
                ctx.pure_extra.pop()
        return P()

    def ex_BoolOp(self, n, env):
        ctx = self.ctx
        is_and = isinstance(n.op, ast.And)
        v = self.expr(n.values[0], env)
        for k, nxt in enumerate(n.values[1:]):
            t = ops.truth(ctx, v)
            if isinstance(t, bool):
                go = t if is_and else not t
                if not go:
                    return v
                v = self.expr(nxt, env)
                continue
            ts = z3.simplify(t)
            if z3.is_true(ts) or z3.is_false(ts):
                go = z3.is_true(ts) if is_and else z3.is_false(ts)
                if not go:
                    return v
                v = self.expr(nxt, env)
                continue
            goc = t if is_and else z3.Not(t)
            # try to evaluate the rest without forking and merge
            merged = None
            if not ctx.pure or True:
                snapshot = self.loop_counter
                try:
                    with self._pure(goc):
                        w = self.expr(nxt, env)
                    merged = merge(goc, w, v)
                except NeedFork:
                    self.loop_counter = snapshot
                    merged = None
            if merged is not None:
                v = merged
                continue
            if ctx.branch(goc):
                v = self.expr(nxt, env)
            else:
                return v
        return v

    def ex_IfExp(self, n, env):
        ctx = self.ctx
        c = self.cond(n.test, env)
        if isinstance(c, bool):
            return self.expr(n.body if c else n.orelse, env)
        cs = z3.simplify(c)
        if z3.is_true(cs):
            return self.expr(n.body, env)
        if z3.is_false(cs):
            return self.expr(n.orelse, env)
        try:
            with self._pure(c):
                a = self.expr(n.body, env)
            with self._pure(z3.Not(c)):
                b = self.expr(n.orelse, env)
            return merge(c, a, b)
        except NeedFork:
            pass
        if ctx.branch(c):
            return self.expr(n.body, env)
        return self.expr(n.orelse, env)

    def ex_Yield(self, n, env):
        v = self.expr(n.value, env) if n.value is not None else None
        hook = getattr(self.ctx, 'yield_hook', None)
        if hook is not None:
            # per-context hook: the contract states what must hold of every yielded value (also inside an
            # invariant-cut loop, where the list of yields is never seen by `ensures`)
            hook(self.ctx, v, env, n)
        env.lookup('__yields__').append(v)
        return None

    def ex_YieldFrom(self, n, env):
        env.lookup('__yields__').extend(ops.iterate(self.ctx, self.expr(n.value, env)))
        return None

    def ex_NamedExpr(self, n, env):
        v = self.expr(n.value, env)
        self.assign(n.target, v, env)
        return v

    def ex_Lambda(self, n, env):
        return Closure(self, n, env)

    def ex_JoinedStr(self, n, env):
        hook = getattr(self.ctx, 'fstring_hook', None)
        if hook is not None:
            parts = []
            for v in n.values:
                if isinstance(v, ast.Constant):
                    parts.append(v.value)
                else:
                    parts.append(('value', self.expr(v.value, env)))
            return hook(parts)
        self.ctx.dropped.add('f-string')
        return SOpaque('str')

    def ex_FormattedValue(self, n, env):
        return SOpaque('str')

    def ex_Starred(self, n, env):
        raise Unsupported('starred expression outside call/tuple')

    def ex_Call(self, n, env):
        ctx = self.ctx
        # super()
        if isinstance(n.func, ast.Name) and n.func.id == 'super' and not n.args and not env.has('super'):
            selfobj = None
            for nm in ('self', 'cls', 'mcls'):
                if env.has(nm):
                    selfobj = env.lookup(nm)
                    break
            if selfobj is None:
                raise Unsupported('super() without self')
            return SuperProxy(self, selfobj)
        f = self.expr(n.func, env)
        args = []
        for a in n.args:
            if isinstance(a, ast.Starred):
                args.extend(ops.iterate(ctx, self.expr(a.value, env)))
            else:
                args.append(self.expr(a, env))
        kwargs = {}
        for k in n.keywords:
            if k.arg is None:
                d = self.expr(k.value, env)
                if not isinstance(d, dict):
                    raise Unsupported('** of non-dict')
                kwargs.update(d)
            else:
                kwargs[k.arg] = self.expr(k.value, env)
        return self.call(f, args, kwargs)

    # ---- comprehensions
    def comp_envs(self, gens, env):
        ctx = self.ctx
        envs = [Env(env)]
        for g in gens:
            new = []
            for e in envs:
                items = ops.iterate(ctx, self.expr(g.iter, e))
                for x in items:
                    e2 = Env(e)
                    self.assign(g.target, x, e2)
                    ok = True
                    for cnd in g.ifs:
                        if not ctx.branch(self.cond(cnd, e2)):
                            ok = False
                            break
                    if ok:
                        new.append(e2)
            envs = new
        return envs

    def ex_ListComp(self, n, env):
        g0 = n.generators[0]
        if len(n.generators) == 1 and not g0.ifs and isinstance(n.elt, ast.List) and not n.elt.elts and isinstance(g0.target, ast.Name) \
                and isinstance(g0.iter, ast.Call) and isinstance(g0.iter.func, ast.Name) and g0.iter.func.id == 'range' and not env.has('range'):
            # `[[] for i in range(n)]` with symbolic n: n distinct empty lists (exact; the target is not used by the element)
            src = self.expr(g0.iter, env)
            if isinstance(src, Sym) and hasattr(src, 'seq_len'):
                from .nested import NestedIntLists
                return NestedIntLists.empty(self.ctx, z3.simplify(src.seq_len(self.ctx)))
        if len(n.generators) == 1 and not n.generators[0].ifs:
            g = n.generators[0]
            src = self.expr(g.iter, env)
            if isinstance(src, Sym) and hasattr(src, 'seq_len') and hasattr(src, 'seq_at'):
                try:
                    items = ops.iterate(self.ctx, src)
                except Unsupported:
                    return self.symbolic_listcomp(n, g, src, env)
            else:
                items = ops.iterate(self.ctx, src)
            out = []
            for x in items:
                e2 = Env(env)
                self.assign(g.target, x, e2)
                out.append(self.expr(n.elt, e2))
            return out
        return [self.expr(n.elt, e) for e in self.comp_envs(n.generators, env)]

    def symbolic_listcomp(self, n, g, src, env):
        """[elt for x in SEQ] over a sequence of SYMBOLIC length (one generator, no condition): the list has the length
        of SEQ and its i-th item is `elt` evaluated at SEQ[i].  The element expression is evaluated once at a fresh
        index j (under 0 <= j < len, without forking) and must be int-valued; anything else is outside the subset."""
        from .nparr import SList
        ctx = self.ctx
        j = z3.Int(ctx.name('j!listcomp'))
        length = src.seq_len(ctx)
        e2 = Env(env)
        try:
            with self._pure(z3.And(0 <= j, j < length)):
                self.assign(g.target, src.seq_at(ctx, j), e2)
                v = self.expr(n.elt, e2)
        except NeedFork:
            raise Unsupported('list comprehension over a sequence of symbolic length: the element expression forks')
        if not is_intlike(v):
            raise Unsupported('list comprehension over a sequence of symbolic length: element %r is not an int' % (v,))
        t = zint(v)
        return SList(length, lambda i: z3.substitute(t, (j, i if z3.is_expr(i) else z3.IntVal(i))), 'listcomp')

    def ex_GeneratorExp(self, n, env):
        return LazyGen(self, n, env)

    def ex_SetComp(self, n, env):
        xs = [self.expr(n.elt, e) for e in self.comp_envs(n.generators, env)]
        if ops.has_sym(xs):
            raise Unsupported('set comprehension of symbolic items')
        return set(xs)

    def ex_DictComp(self, n, env):
        d = {}
        for e in self.comp_envs(n.generators, env):
            k = self.expr(n.key, e)
            ops.setitem(self.ctx, d, k, self.expr(n.value, e))
        return d


class LazyGen:
    """Generator expression: elements are produced on demand (all/any short-circuit)."""

    def __init__(self, interp, node, env):
        self.interp, self.node, self.env = interp, node, env

    def sym_iterate(self, ctx):
        # eager expansion; element evaluation order equals Python's for a fully consumed generator
        return [self.interp.expr(self.node.elt, e) for e in self.interp.comp_envs(self.node.generators, self.env)]

    def as_mapped(self, ctx):
        """(elt for target in SEQ) over a symbolic sequence -> MappedSeq, else None."""
        node, interp = self.node, self.interp
        if len(node.generators) != 1 or node.generators[0].ifs:
            return None
        g = node.generators[0]
        src = interp.expr(g.iter, self.env)
        if not hasattr(src, 'seq_len') or isinstance(src, (list, tuple)):
            self._src_cache = src
            return None
        from .bytesdom import MappedSeq

        def fn(x):
            e2 = Env(self.env)
            interp.assign(g.target, x, e2)
            return interp.expr(node.elt, e2)
        return MappedSeq(src, fn, 'genexp')

    def lazy_items(self, ctx):
        """Yield element thunks one at a time for single-generator comprehensions."""
        node, interp = self.node, self.interp
        if len(node.generators) != 1:
            for v in self.sym_iterate(ctx):
                yield v
            return
        g = node.generators[0]
        for x in ops.iterate(ctx, interp.expr(g.iter, self.env)):
            e2 = Env(self.env)
            interp.assign(g.target, x, e2)
            ok = True
            for cnd in g.ifs:
                if not ctx.branch(interp.cond(cnd, e2)):
                    ok = False
                    break
            if ok:
                yield interp.expr(node.elt, e2)


def _lazy_all(ctx, it):
    if hasattr(it, '_all'):
        return it._all(ctx)
    items = it.lazy_items(ctx) if isinstance(it, LazyGen) else ops.iterate(ctx, it)
    for x in items:
        if not ctx.branch(ops.truth(ctx, x)):
            return False
    return True


def _lazy_any(ctx, it):
    if hasattr(it, '_any'):
        return it._any(ctx)
    items = it.lazy_items(ctx) if isinstance(it, LazyGen) else ops.iterate(ctx, it)
    for x in items:
        if ctx.branch(ops.truth(ctx, x)):
            return True
    return False


def _sorted(ctx, it, **kw):
    from .bytesdom import SymSeq, py_sorted_sym
    if isinstance(it, LazyGen):
        m = it.as_mapped(ctx)
        if m is not None:
            return py_sorted_sym(ctx, m, **kw)
    if isinstance(it, SymSeq):
        return py_sorted_sym(ctx, it, **kw)
    return ops.py_sorted(ctx, it, **kw)


def _map(ctx, f, *its):
    from .bytesdom import SymSeq, MappedSeq
    if len(its) == 1 and hasattr(its[0], 'seq_len') and not isinstance(its[0], (list, tuple)):
        interp = ctx.interp
        return MappedSeq(its[0], lambda x: interp.call(f, [x], {}), 'map')
    ls = [ops.iterate(ctx, it) for it in its]
    return [ctx.interp.call(f, list(a), {}) for a in zip(*ls)]


ops.BUILTINS['all'] = _lazy_all
ops.BUILTINS['any'] = _lazy_any
ops.BUILTINS['sorted'] = _sorted
ops.BUILTINS['map'] = _map


def module_level_names(tree):
    names = set()
    for n in tree.body:
        if isinstance(n, (ast.FunctionDef, ast.ClassDef)):
            names.add(n.name)
        elif isinstance(n, ast.Assign):
            for t in n.targets:
                for m in ast.walk(t):
                    if isinstance(m, ast.Name):
                        names.add(m.id)
        elif isinstance(n, (ast.Import, ast.ImportFrom)):
            for a in n.names:
                names.add((a.asname or a.name).split('.')[0])
        elif isinstance(n, (ast.If, ast.Try, ast.For)):
            for m in ast.walk(n):
                if isinstance(m, (ast.FunctionDef, ast.ClassDef)):
                    names.add(m.name)
                elif isinstance(m, ast.Name) and isinstance(m.ctx, ast.Store):
                    names.add(m.id)
                elif isinstance(m, (ast.Import, ast.ImportFrom)):
                    for a in m.names:
                        names.add((a.asname or a.name).split('.')[0])
    return names


def module_exception_classes(tree):
    """name -> (parent name, init fields) for classes that look like exceptions (closed under the module)."""
    cls = {}
    for n in ast.walk(tree):
        if isinstance(n, ast.ClassDef) and n.bases:
            b = n.bases[0]
            parent = b.id if isinstance(b, ast.Name) else (b.attr if isinstance(b, ast.Attribute) else None)
            fields = []
            for f in n.body:
                if isinstance(f, ast.FunctionDef) and f.name == '__init__':
                    params = [a.arg for a in f.args.args[1:]]
                    stored = {}
                    for st in f.body:
                        if isinstance(st, ast.Assign) and len(st.targets) == 1 and isinstance(st.targets[0], ast.Attribute) \
                                and isinstance(st.targets[0].value, ast.Name) and st.targets[0].value.id == 'self' \
                                and isinstance(st.value, ast.Name) and st.value.id in params:
                            stored[st.value.id] = st.targets[0].attr
                    fields = [stored.get(p, '_' + p) for p in params]
            cls[n.name] = (parent, fields)
    out = {}
    changed = True
    while changed:
        changed = False
        for name, (parent, fields) in cls.items():
            if name in out:
                continue
            if parent in EXC_PARENTS or parent in out:
                out[name] = (parent, fields)
                changed = True
    return out
