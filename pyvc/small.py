"""Small symbolic collections: a set / string of a CONCRETE number of symbolic items (bounded stand-in domain).

SmallSet keeps its elements pairwise distinct on the current path by forking on equality when an element is added;
IdxStr is a str-like sequence of symbolic characters of concrete length."""
import z3
from .values import Sym, SBool, SInt, Unsupported, PyRaise, zbool, STerm
from . import ops


def _eq(ctx, a, b):
    r = ops.compare(ctx, '==', a, b)
    return r if isinstance(r, bool) else zbool(r)


class SmallSet(Sym):
    def __init__(self, elems=(), frozen=False):
        self.elems = list(elems)
        self.frozen = frozen

    @staticmethod
    def build(ctx, items, frozen=False):
        s = SmallSet((), frozen)
        for x in items:
            s._add(ctx, x)
        return s

    def _find(self, ctx, x):
        for k, e in enumerate(self.elems):
            if ctx.branch(_eq(ctx, e, x)):
                return k
        return -1

    def _add(self, ctx, x):
        if self._find(ctx, x) < 0:
            self.elems.append(x)

    def contains(self, ctx, x):
        parts = [_eq(ctx, e, x) for e in self.elems]
        if any(p is True for p in parts):
            return True
        parts = [zbool(p) for p in parts if p is not False]
        return SBool(z3.Or(*parts)) if parts else False

    def length(self, ctx):
        return len(self.elems)

    def truth(self, ctx):
        return bool(self.elems)

    def iterate(self, ctx):
        return list(self.elems)

    def compare(self, ctx, op, other, reflected):
        if op in ('==', '!=') and isinstance(other, SmallSet):
            # elements are pairwise distinct on this path: equal sets have equal sizes and mutual containment
            if len(self.elems) != len(other.elems):
                return op == '!='
            parts = [zbool(other.contains(ctx, x)) for x in self.elems]
            e = z3.And(*parts) if parts else z3.BoolVal(True)
            return SBool(e if op == '==' else z3.Not(e))
        return NotImplemented

    def isinstance_(self, ctx, types):
        return (frozenset in types) if self.frozen else (set in types)

    def getattr(self, ctx, name):
        if name == 'add':
            return lambda ctx, x: self._add(ctx, x)
        if name == 'discard':
            def discard(ctx, x):
                k = self._find(ctx, x)
                if k >= 0:
                    del self.elems[k]
            return discard
        if name == 'copy':
            return lambda ctx: SmallSet(self.elems, self.frozen)
        raise Unsupported('set.' + name)

    def binop(self, ctx, op, other, reflected):
        if isinstance(other, (set, frozenset)):
            other = SmallSet(sorted(other, key=repr), isinstance(other, frozenset))
        if not isinstance(other, SmallSet):
            return NotImplemented
        a, b = (other, self) if reflected else (self, other)
        if op == '|':
            r = SmallSet(a.elems, a.frozen)
            for x in b.elems:
                r._add(ctx, x)
            return r
        if op == '&':
            r = SmallSet((), a.frozen)
            for x in a.elems:
                if b._find(ctx, x) >= 0:
                    r.elems.append(x)
            return r
        if op == '-':
            r = SmallSet((), a.frozen)
            for x in a.elems:
                if b._find(ctx, x) < 0:
                    r.elems.append(x)
            return r
        return NotImplemented

    def sym_iop(self, ctx, op, rhs):
        if op == '|' and isinstance(rhs, SmallSet):
            for x in rhs.elems:
                self._add(ctx, x)
            return self
        return NotImplemented


class IdxStr(Sym):
    """A str whose characters are symbolic (concrete length)."""

    def __init__(self, chars):
        self.chars = tuple(chars)

    def length(self, ctx):
        return len(self.chars)

    def truth(self, ctx):
        return bool(self.chars)

    def iterate(self, ctx):
        return list(self.chars)

    def isinstance_(self, ctx, types):
        return str in types

    def getitem(self, ctx, idx):
        if isinstance(idx, slice):
            return IdxStr(self.chars[idx])
        if isinstance(idx, int):
            try:
                return self.chars[idx]
            except IndexError:
                raise PyRaise('IndexError')
        raise Unsupported('symbolic index into an index string')

    @staticmethod
    def chars_of(x):
        """the characters of a str-like value of concrete length, or None"""
        if isinstance(x, IdxStr):
            return x.chars
        if isinstance(x, str):
            return tuple(x)
        if hasattr(x, 'as_idx_chars'):
            return tuple(x.as_idx_chars())
        return None

    def binop(self, ctx, op, other, reflected):
        o = IdxStr.chars_of(other) if op == '+' else None
        if o is not None:
            return IdxStr(o + self.chars if reflected else self.chars + o)
        return NotImplemented

    def compare(self, ctx, op, other, reflected):
        # str equality: same length and equal characters
        o = IdxStr.chars_of(other) if op in ('==', '!=') else None
        if o is None:
            return NotImplemented
        if len(o) != len(self.chars):
            return op == '!='
        parts = [_eq(ctx, a, b) for a, b in zip(self.chars, o)]
        if any(p is False for p in parts):
            return op == '!='
        parts = [zbool(p) for p in parts if p is not True]
        e = z3.And(*parts) if parts else z3.BoolVal(True)
        return SBool(e if op == '==' else z3.Not(e))

    @staticmethod
    def join(ctx, sep, items):
        """sep.join(items) for an empty separator and str-like items of concrete length"""
        if sep != '':
            raise Unsupported('str.join with a non-empty separator over symbolic strings')
        out = ()
        for x in items:
            c = IdxStr.chars_of(x)
            if c is None:
                raise Unsupported('str.join over %r' % (x,))
            out += c
        return IdxStr(out)

    def contains(self, ctx, x):
        return SmallSet(self.chars).contains(ctx, x)

    def getattr(self, ctx, name):
        if name == 'index':
            def index(ctx, x):
                for k, c in enumerate(self.chars):
                    if ctx.branch(_eq(ctx, c, x)):
                        return k
                raise PyRaise('ValueError', note='substring not found')
            return index
        raise Unsupported('str.' + name)
