"""./check <property> [--tier quick|thorough] [--replay <file>]

Exit codes: 0 every obligation discharged (or a recorded known finding); 1 violation (VIOLATION line printed);
2 undecided (timeout, unknown, outside the modelled subset, function not found); 3 checker error.
"""
import argparse, importlib, json, os, sys, time, hashlib, subprocess, traceback

HERE = os.path.dirname(os.path.dirname(os.path.abspath(__file__)))
sys.path.insert(0, HERE)
sys.setrecursionlimit(10000)

from pyvc import extract, discharge  # noqa: E402
from pyvc.contract import generate, canaries  # noqa: E402
from pyvc import report  # noqa: E402


def load_contracts(prop):
    mod = importlib.import_module('contracts.' + prop)
    return mod, mod.contracts()


def run_property(prop, tier, seed, only=None, verbose=False):
    t0 = time.time()
    mod, contracts = load_contracts(prop)
    if only:
        contracts = [c for c in contracts if only in c.key()]
        report.PARTIAL = True
    timeout_ms = 20000 if tier == 'quick' else 90000
    cresults = []
    obligations = []
    for c in contracts:
        try:
            if hasattr(c, 'decide'):
                cr = c.decide()
            elif getattr(c, 'native', False):
                from pyvc.native import generate_native
                cr = generate_native(c)
            else:
                cr = generate(c)
        except Exception as e:
            from pyvc.contract import ContractResult
            cr = ContractResult(c)
            cr.status, cr.reason = 'error', 'checker exception: %s' % traceback.format_exc()
        cresults.append(cr)
        if verbose:
            print('  generated %-55s paths=%-4d obligations=%-4d %s %s (%.1fs)' % (c.key(), cr.paths, len(cr.obligations), cr.status, cr.reason[:300], cr.seconds), flush=True)
        if cr.status == 'ok':
            cr.canary = canaries(cr)
            obligations += cr.obligations
    # extra ground / lemma obligations a property module may add
    extra = getattr(mod, 'extra_obligations', None)
    extra_info = None
    if extra:
        extra_info = extra(tier, seed)
        obligations += extra_info.get('obligations', [])
    discharge.discharge([o for o in obligations if not getattr(o, 'decided', False)], timeout_ms=timeout_ms, fallbacks=True)
    refute_bounded(obligations, verbose, bound=getattr(mod, 'REFUTE_BOUND', 3))
    thorough_rc = 0
    if tier == 'thorough' and not only:
        extra_info = extra_info or {}
        extra_info['thorough'], thorough_rc = thorough_extras(prop, seed)
    rc = report.conclude(prop, tier, seed, mod, cresults, obligations, time.time() - t0, extra_info, verbose=verbose, only=only)
    if rc == 0 and thorough_rc:
        print('CHECKER-ERROR: thorough-tier self checks failed (axiom cross-check or kill list), see evidence coverage.extra')
        return 3
    return rc


def thorough_extras(prop, seed):
    """Thorough tier: (1) cross-check the numpy/stdlib axioms against the real numpy on random inputs; (2) run the
    property's kill list (selftest/mutations/<id>.json) on scratch copies: every property-breaking edit must be
    reported, every harmless edit must stay quiet.  These check the CHECKER; a failure is exit 3, never a violation."""
    info, rc = {}, 0
    script = "import sys; sys.path.insert(0, %r)\nfrom native import axioms\nsys.exit(0 if axioms.run(seed=%d) else 1)\n" % (HERE, seed)
    arc, out, err = report.run_native(script, timeout=600)
    info['axiom_cross_check'] = (out.strip().split('\n') or [''])[-1][:400]
    if arc != 0:
        rc = 3
    if not os.environ.get('VERIF_REPO') and not os.environ.get('VERIF_NO_SELFTEST'):
        try:
            p = subprocess.run([sys.executable, os.path.join(HERE, 'selftest', 'run.py'), prop, '--jobs=6'], capture_output=True, text=True, timeout=5400)
            lines = [l for l in p.stdout.split('\n') if l and not l.startswith('    ')]
            info['kill_list'] = lines[-40:]
            stale = sum(1 for l in lines if l.startswith('STALE'))
            bad = [l for l in lines if l.startswith('MISSED') or l.startswith('FALSE-ALARM')]
            info['kill_list_summary'] = dict(entries=len(lines) - 1, unexpected=len(bad), stale=stale)
            if bad:
                rc = 3
        except subprocess.TimeoutExpired:
            info['kill_list'] = ['timed out']
    return info, rc


def refute_bounded(obligations, verbose=False, bound=3):
    """Counterexample search for obligations left unknown: regenerate their contract with every array length
    <= bound and index quantifiers expanded (quantifier-free), and look for a model.  Only refutes."""
    from pyvc import nparr
    unk = [ob for ob in obligations if ob.status == 'unknown' and getattr(ob, 'contract', None) is not None]
    if not unk:
        return
    wanted = set((ob.fn, ob.clause) for ob in unk)
    contracts = {}
    for ob in unk:
        contracts[id(ob.contract)] = ob.contract
    obs2 = []
    nparr.BOUND = bound
    try:
        for c in contracts.values():
            # the bounded instance is generated UNSPLIT (expanded quantifiers would otherwise be split into thousands of obligations,
            # each carrying the expanded hypotheses); a clause and its split pieces 'clause#k' are matched on the clause name
            split = getattr(c, 'split_conjunctions', False)
            try:
                if split:
                    c.split_conjunctions = False
                cr2 = generate(c)
            except Exception:
                continue
            finally:
                if split:
                    c.split_conjunctions = split
            if cr2.status == 'ok':
                obs2 += [o for o in cr2.obligations if any(o.fn == f and (o.clause == c or o.clause.startswith(c + '#') or (split and o.clause == c.split('#')[0])) for f, c in wanted)]
        discharge.discharge(obs2, timeout_ms=20000, fallbacks=False)
    finally:
        nparr.BOUND = None
    for o2 in obs2:
        if o2.status != 'refuted':
            continue
        cands = [ob for ob in unk if ob.status == 'unknown' and ob.fn == o2.fn and (ob.clause == o2.clause or o2.clause.startswith(ob.clause + '#')
                                                                                 or (getattr(ob.contract, 'split_conjunctions', False) and ob.clause.split('#')[0] == o2.clause))]
        if not cands:
            continue
        ob = sorted(cands, key=lambda x: x.path != o2.path)[0]
        ob.status, ob.model, ob.backend = 'refuted', o2.model, '%s on the bounded instance (array lengths <= %d)' % (o2.backend, bound)
        ob.output = (ob.output or '') + '; bounded instance: sat'
        if verbose:
            print('  bounded refutation found for', ob.name)


def _kill_descendants():
    """SIGKILL every descendant process (solver pool workers and their children): an over-budget check must not leave stuck solvers behind."""
    import signal
    me = os.getpid()
    children = {}
    for d in os.listdir('/proc'):
        if d.isdigit():
            try:
                with open('/proc/%s/stat' % d) as f:
                    parts = f.read().rsplit(')', 1)[1].split()
                children.setdefault(int(parts[1]), []).append(int(d))
            except Exception:
                pass
    todo, seen = [me], set()
    while todo:
        p = todo.pop()
        for c in children.get(p, []):
            if c not in seen:
                seen.add(c)
                todo.append(c)
    for c in seen:
        try:
            os.kill(c, signal.SIGKILL)
        except OSError:
            pass


def main(argv=None):
    ap = argparse.ArgumentParser()
    ap.add_argument('prop')
    ap.add_argument('--tier', default=os.environ.get('VERIF_TIER', 'quick'), choices=['quick', 'thorough'])
    ap.add_argument('--replay')
    ap.add_argument('--only')
    ap.add_argument('-v', '--verbose', action='store_true')
    ap.add_argument('--update-ledger', action='store_true', help='maintainer use: rewrite ledger/<id>.json from this run')
    a = ap.parse_args(argv)
    seed = int(os.environ.get('VERIF_SEED', '0') or 0)
    # watchdog: a solver call that ignores its limits must not hang the check; over budget => undecided (exit 2)
    import threading
    budget = int(os.environ.get('VERIF_BUDGET_S', '1500' if a.tier == 'quick' else '7200'))

    def _expire():
        sys.stdout.write('UNDECIDED: property=%s check exceeded its time budget of %d s (a solver call did not return)\n' % (a.prop, budget))
        sys.stdout.flush()
        _kill_descendants()
        os._exit(2)
    wd = threading.Timer(budget, _expire)
    wd.daemon = True
    wd.start()
    if a.replay:
        return report.replay_file(a.replay)
    try:
        rc = run_property(a.prop, a.tier, seed, only=a.only, verbose=a.verbose or bool(a.only))
        if a.update_ledger:
            report.update_ledger(a.prop)
        return rc
    except SystemExit:
        raise
    except Exception:
        traceback.print_exc()
        print('CHECKER-ERROR property=%s' % a.prop)
        return 3


if __name__ == '__main__':
    sys.exit(main())
