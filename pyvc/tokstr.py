"""Token strings: a `str` made of a CONCRETE number of pieces, each piece a literal or an abstract, non-empty string of
which only a character class is known (bounded stand-in domain for unit / dimension strings, C20).

  Lit(text)            concrete characters
  Atom(term, ...)      abstract non-empty string, identified by a z3 term (equal terms <=> equal strings); what is known about
                       its characters is a CLASS INVARIANT stated by the contract that creates it:
                         alphabet   if not None: every character lies in this set
                         excludes   no character lies in this set
                         first_not  the first character does not lie in this set
                         last_not   the last character does not lie in this set
  Digits(n)            Atom: str(n) for an int n >= 0      (alphabet 0-9; int() gives n back)
  Number(v, term)      Atom: a float literal over '+-0123456789.' that float() accepts, with value v

Every operation is exact under these invariants or raises Unsupported (never a guessed result): strip/split/partition
decide per token from the character classes; slicing accepts lengths that are recognisable as a token boundary.
Equality is STRUCTURAL (same literal text, same atoms in the same order): sufficient for string equality; it is also
necessary whenever the concatenation is uniquely decodable, which is exactly what the C20 contracts on
`_split_factors` establish for the strings they build -- contracts say so where they rely on it.
"""
import z3
from .values import Sym, SBool, SInt, SReal, Unsupported, PyRaise, zbool

DIGITS = frozenset('0123456789')
NUMCHARS = frozenset('+-0123456789.')


class Lit:
    def __init__(self, text):
        assert text
        self.text = text

    def __repr__(self):
        return 'Lit(%r)' % self.text


class Atom:
    kind = 'atom'

    def __init__(self, term, alphabet=None, excludes=(), first_not=(), last_not=(), label=None):
        self.term = term
        self.alphabet = None if alphabet is None else frozenset(alphabet)
        self.excludes = frozenset(excludes)
        self.first_not = frozenset(first_not) | self.excludes
        self.last_not = frozenset(last_not) | self.excludes
        self.label = label or str(term)

    # three-valued character-class queries: True / False / None (unknown)
    def all_in(self, chars):
        if self.alphabet is not None and self.alphabet <= chars:
            return True
        if self.alphabet is not None and not (self.alphabet & chars):
            return False
        if chars <= self.first_not or chars <= self.last_not:
            return False  # non-empty, and one end is outside `chars`
        return None

    def first_in(self, chars):
        if self.alphabet is not None and self.alphabet <= chars:
            return True
        if chars <= self.first_not or (self.alphabet is not None and not (self.alphabet & chars)):
            return False
        return None

    def last_in(self, chars):
        if self.alphabet is not None and self.alphabet <= chars:
            return True
        if chars <= self.last_not or (self.alphabet is not None and not (self.alphabet & chars)):
            return False
        return None

    def has(self, ch):
        if ch in self.excludes or (self.alphabet is not None and ch not in self.alphabet):
            return False
        return None

    def same(self, other):
        """z3 Bool / bool: the two atoms are the same string."""
        if other is self:
            return True
        if type(other) is not type(self) or self.term.sort() != other.term.sort():
            return None
        return self.term == other.term

    def __repr__(self):
        return '%s(%s)' % (type(self).__name__, self.label)


class Digits(Atom):
    def __init__(self, n):
        super().__init__(n, alphabet=DIGITS, label='str(%s)' % n)
        self.n = n


class Number(Atom):
    def __init__(self, value, term):
        super().__init__(term, alphabet=NUMCHARS, label='number(%s)' % term)
        self.value = value


class TLen(Sym):
    """len() of a token string: concrete characters plus the (unknown, positive) lengths of its atoms."""

    def __init__(self, const, atoms):
        self.const, self.atoms = const, tuple(sorted(atoms, key=id))

    def binop(self, ctx, op, other, reflected):
        if isinstance(other, int) and not isinstance(other, bool):
            other = TLen(other, ())
        if not isinstance(other, TLen) or op not in ('+', '-'):
            raise Unsupported('arithmetic %s on the length of a token string' % op)
        a, b = (other, self) if reflected else (self, other)
        if op == '+':
            return TLen(a.const + b.const, a.atoms + b.atoms)
        rest = list(a.atoms)
        for t in b.atoms:
            for k, u in enumerate(rest):
                if u is t:
                    del rest[k]
                    break
            else:
                raise Unsupported('difference of token-string lengths is not a sum of token lengths')
        if a.const < b.const and rest:
            raise Unsupported('difference of token-string lengths: sign unknown')
        r = TLen(a.const - b.const, rest)
        return r.const if not rest else r

    def key(self):
        return (self.const, tuple(id(t) for t in self.atoms))


def _norm(tokens):
    out = []
    for t in tokens:
        if isinstance(t, Lit) and out and isinstance(out[-1], Lit):
            out[-1] = Lit(out[-1].text + t.text)
        else:
            out.append(t)
    return tuple(out)


class TokStr(Sym):
    def __init__(self, tokens=()):
        self.tokens = _norm(tokens)

    @staticmethod
    def of(x):
        if isinstance(x, TokStr):
            return x
        if isinstance(x, str):
            return TokStr([Lit(x)] if x else [])
        if isinstance(x, (Lit, Atom)):
            return TokStr([x])
        raise Unsupported('token string of %r' % (x,))

    def __repr__(self):
        return 'TokStr(%s)' % ' '.join(map(repr, self.tokens))

    def concrete(self):
        if all(isinstance(t, Lit) for t in self.tokens):
            return ''.join(t.text for t in self.tokens)
        return None

    # ---- basic protocol
    def truth(self, ctx):
        return bool(self.tokens)

    def isinstance_(self, ctx, types):
        return str in types

    def unop(self, ctx, op):
        if op == 'not':
            return not self.tokens
        raise Unsupported('unary %s on a str' % op)

    def pytype(self, ctx):
        from .ops import Builtin
        return Builtin('str')

    def length(self, ctx):
        c = sum(len(t.text) for t in self.tokens if isinstance(t, Lit))
        atoms = [t for t in self.tokens if not isinstance(t, Lit)]
        return TLen(c, atoms) if atoms else c

    def binop(self, ctx, op, other, reflected):
        if op == '+' and isinstance(other, (str, TokStr)):
            o = TokStr.of(other)
            return TokStr(o.tokens + self.tokens) if reflected else TokStr(self.tokens + o.tokens)
        return NotImplemented

    def struct_eq(self, other):
        """bool | z3 Bool: structural equality (see module docstring)."""
        o = TokStr.of(other)
        if len(self.tokens) != len(o.tokens):
            return False
        parts = []
        for a, b in zip(self.tokens, o.tokens):
            if isinstance(a, Lit) or isinstance(b, Lit):
                if not (isinstance(a, Lit) and isinstance(b, Lit) and a.text == b.text):
                    return False
                continue
            s = a.same(b)
            if s is None or s is False:
                return False
            if s is not True:
                parts.append(s)
        return z3.And(*parts) if parts else True

    def compare(self, ctx, op, other, reflected):
        if op in ('==', '!=') and isinstance(other, (str, TokStr)):
            e = self.struct_eq(other)
            ctx.used_axioms.add('token strings are compared structurally (uniquely decodable concatenations)')
            if isinstance(e, bool):
                return e if op == '==' else not e
            return SBool(e if op == '==' else z3.Not(e))
        if op in ('==', '!='):
            return op == '!='
        return NotImplemented

    # ---- slicing at token boundaries
    def _prefix_upto(self, n):
        """tokens of self[:n] for n an int or TLen that is recognisably a position in this string."""
        if isinstance(n, bool) or not isinstance(n, (int, TLen)):
            raise Unsupported('token-string slice bound %r' % (n,))
        want = TLen(n, ()) if isinstance(n, int) else n
        if want.const < 0:
            raise Unsupported('negative token-string slice bound')
        out, const, atoms = [], 0, []
        for t in self.tokens:
            if sorted(map(id, atoms)) == sorted(map(id, want.atoms)):
                # all symbolic lengths consumed: the rest is a number of literal characters
                if const == want.const:
                    return out
                if isinstance(t, Lit) and const + len(t.text) >= want.const:
                    k = want.const - const
                    return out + ([Lit(t.text[:k])] if k else [])
            if isinstance(t, Lit):
                const += len(t.text)
            else:
                atoms.append(t)
            out.append(t)
            if const > want.const:
                break
        if sorted(map(id, atoms)) == sorted(map(id, want.atoms)) and const == want.const:
            return out
        if not want.atoms and want.const >= const and not atoms:
            return out  # beyond the end of a concrete string
        raise Unsupported('token-string slice bound is not a recognisable position')

    def getitem(self, ctx, idx):
        if isinstance(idx, slice):
            if idx.step is not None:
                raise Unsupported('token-string slice with a step')
            start, stop = idx.start, idx.stop
            toks = list(self.tokens)
            if isinstance(stop, int) and not isinstance(stop, bool) and stop < 0:
                # strip -stop characters from the end: must be literal characters
                k = -stop
                while k:
                    if not toks or not isinstance(toks[-1], Lit):
                        raise Unsupported('negative slice bound reaches into an abstract token')
                    t = toks.pop()
                    if len(t.text) > k:
                        toks.append(Lit(t.text[:-k]))
                        k = 0
                    else:
                        k -= len(t.text)
                stop = None
            head = TokStr(toks)
            if stop is not None:
                head = TokStr(head._prefix_upto(stop))
            if start is None or (isinstance(start, int) and start == 0):
                return head
            pre = head._prefix_upto(start)
            # remove the prefix `pre` (token by token; the last one may be a partial literal)
            rest = list(head.tokens)
            for p in _norm(pre):
                if not rest:
                    break
                t = rest[0]
                if p is t:
                    rest.pop(0)
                elif isinstance(p, Lit) and isinstance(t, Lit) and t.text.startswith(p.text):
                    rest[0:1] = [Lit(t.text[len(p.text):])] if len(t.text) > len(p.text) else []
                else:
                    raise Unsupported('token-string slice: prefix mismatch')
            return TokStr(rest)
        if isinstance(idx, int) and not isinstance(idx, bool):
            toks = self.tokens
            if idx >= 0 and toks and isinstance(toks[0], Lit) and idx < len(toks[0].text):
                return toks[0].text[idx]
            if idx < 0 and toks and isinstance(toks[-1], Lit) and -idx <= len(toks[-1].text):
                return toks[-1].text[idx]
            if not toks:
                raise PyRaise('IndexError')
        raise Unsupported('character index into an abstract token')

    # ---- str methods
    def getattr(self, ctx, name):
        m = getattr(self, 'm_' + name, None)
        if m is None:
            raise Unsupported('str.%s on a token string' % name)
        return lambda ctx, *a, **k: m(ctx, *a, **k)

    def _strip(self, chars, left):
        if not isinstance(chars, str):
            raise Unsupported('strip argument %r' % (chars,))
        cs = frozenset(chars)
        toks = list(self.tokens)
        while toks:
            t = toks[0 if left else -1]
            if isinstance(t, Lit):
                s = t.text.lstrip(chars) if left else t.text.rstrip(chars)
                if s:
                    toks[0 if left else -1] = Lit(s)
                    break
                toks.pop(0 if left else -1)
                continue
            if t.all_in(cs) is True:
                toks.pop(0 if left else -1)
                continue
            edge = t.first_in(cs) if left else t.last_in(cs)
            if edge is False:
                break
            raise Unsupported('strip(%r) cannot be decided on %r' % (chars, t))
        return TokStr(toks)

    def m_lstrip(self, ctx, chars=None):
        return self._strip(chars, True)

    def m_rstrip(self, ctx, chars=None):
        return self._strip(chars, False)

    def m_strip(self, ctx, chars=None):
        return self._strip(chars, True)._strip(chars, False)

    def m_split(self, ctx, sep=None, maxsplit=-1):
        if not isinstance(sep, str) or len(sep) != 1 or maxsplit != -1:
            raise Unsupported('split(%r) on a token string' % (sep,))
        parts, cur = [], []
        for t in self.tokens:
            if isinstance(t, Lit):
                pieces = t.text.split(sep)
                for k, p in enumerate(pieces):
                    if k:
                        parts.append(TokStr(cur))
                        cur = []
                    if p:
                        cur.append(Lit(p))
            else:
                if t.has(sep) is not False:
                    raise Unsupported('split(%r): %r may contain the separator' % (sep, t))
                cur.append(t)
        parts.append(TokStr(cur))
        return parts

    def m_partition(self, ctx, sep):
        if not isinstance(sep, str) or len(sep) != 1:
            raise Unsupported('partition(%r) on a token string' % (sep,))
        before = []
        toks = list(self.tokens)
        for k, t in enumerate(toks):
            if isinstance(t, Lit):
                if sep in t.text:
                    a, _, b = t.text.partition(sep)
                    return (TokStr(before + ([Lit(a)] if a else [])), sep, TokStr(([Lit(b)] if b else []) + toks[k + 1:]))
                before.append(t)
            else:
                if t.has(sep) is not False:
                    raise Unsupported('partition(%r): %r may contain the separator' % (sep, t))
                before.append(t)
        return (self, '', '')

    def m_startswith(self, ctx, prefix):
        if not isinstance(prefix, str):
            raise Unsupported('startswith(%r)' % (prefix,))
        if not prefix:
            return True
        if not self.tokens:
            return False
        t = self.tokens[0]
        if isinstance(t, Lit) and (len(t.text) >= len(prefix) or not t.text.startswith(prefix[:len(t.text)])):
            return t.text.startswith(prefix)
        if not isinstance(t, Lit) and len(prefix) == 1:
            r = t.first_in(frozenset(prefix))
            if r is not None:
                return r
        raise Unsupported('startswith(%r) cannot be decided on %r' % (prefix, self))

    def m_endswith(self, ctx, suffix):
        if not isinstance(suffix, str):
            raise Unsupported('endswith(%r)' % (suffix,))
        if not suffix:
            return True
        if not self.tokens:
            return False
        t = self.tokens[-1]
        if isinstance(t, Lit) and (len(t.text) >= len(suffix) or not t.text.endswith(suffix[-len(t.text):])):
            return t.text.endswith(suffix)
        if not isinstance(t, Lit) and len(suffix) == 1:
            r = t.last_in(frozenset(suffix))
            if r is not None:
                return r
        raise Unsupported('endswith(%r) cannot be decided on %r' % (suffix, self))

    def m_join(self, ctx, items):
        from . import ops
        out = []
        for k, x in enumerate(ops.iterate(ctx, items)):
            if k:
                out += list(self.tokens)
            out += list(TokStr.of(x).tokens)
        return TokStr(out)

    def m_encode(self, ctx, *a):
        raise Unsupported('encode of a token string')

    # ---- conversions
    def sym_int(self, ctx):
        if len(self.tokens) == 1 and isinstance(self.tokens[0], Digits):
            ctx.used_axioms.add('int(str(n)) == n for n >= 0')
            return SInt(self.tokens[0].n)
        c = self.concrete()
        if c is not None:
            try:
                return int(c)
            except ValueError:
                raise PyRaise('ValueError', note='int(%r)' % c)
        raise Unsupported('int() of %r' % self)

    def sym_float(self, ctx):
        if len(self.tokens) == 1 and isinstance(self.tokens[0], Number):
            return SReal(self.tokens[0].value)
        if len(self.tokens) == 1 and isinstance(self.tokens[0], Digits):
            return SReal(z3.ToReal(self.tokens[0].n))
        c = self.concrete()
        if c is not None:
            try:
                return float(c)
            except ValueError:
                raise PyRaise('ValueError', note='float(%r)' % c)
        raise Unsupported('float() of %r' % self)


def py_str_join(ctx, sep, items):
    """''.join(items) for a concrete separator and token-string items."""
    return TokStr.of(sep).m_join(ctx, items)


class StrOps:
    """Stand-ins for the builtins `str`, `int`, `float`, `len` and for `''.join` that understand token strings; a contract
    puts them into its globals (`str`, `int`, `float`)."""

    @staticmethod
    def str_(ctx, x=''):
        if isinstance(x, (str, TokStr)):
            return x
        if isinstance(x, int) and not isinstance(x, bool):
            return str(x)
        if isinstance(x, SInt):
            if ctx.branch(x.v >= 0):
                return TokStr([Digits(z3.simplify(x.v))])
            return TokStr([Lit('-'), Digits(z3.simplify(-x.v))])
        if hasattr(x, 'sym_str'):
            return x.sym_str(ctx)
        raise Unsupported('str() of %r' % (x,))

    @staticmethod
    def int_(ctx, x=0, *a):
        from . import ops
        if isinstance(x, TokStr):
            return x.sym_int(ctx)
        if isinstance(x, str):
            try:
                return int(x, *a)
            except ValueError:
                raise PyRaise('ValueError', note='int(%r)' % x)
        return ops.py_int(ctx, x)

    @staticmethod
    def float_(ctx, x=0.0):
        from . import ops
        if isinstance(x, TokStr):
            return x.sym_float(ctx)
        if isinstance(x, str):
            try:
                return float(x)
            except ValueError:
                raise PyRaise('ValueError', note='float(%r)' % x)
        return ops.py_float(ctx, x)

    @classmethod
    def globals(cls):
        return {'str': StrBuiltin(), 'int': IntBuiltin(), 'float': FloatBuiltin()}


class _TypeLike:
    """Callable that also works as an isinstance target for the builtin type of the same name."""
    pytype_ = None

    def __init__(self):
        self.__name__ = self.pytype_.__name__

    @property
    def type(self):
        return self.pytype_


from .ops import Builtin  # noqa: E402


class StrBuiltin(Builtin):
    def __init__(self):
        Builtin.__init__(self, 'str')
        self.fn = StrOps.str_


class IntBuiltin(Builtin):
    def __init__(self):
        Builtin.__init__(self, 'int')
        self.fn = StrOps.int_


class FloatBuiltin(Builtin):
    def __init__(self):
        Builtin.__init__(self, 'float')
        self.fn = StrOps.float_
