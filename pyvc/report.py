"""Verdicts, known findings, replay files, evidence and ledger."""
import json, os, subprocess, sys, time, hashlib, re

HERE = os.path.dirname(os.path.dirname(os.path.abspath(__file__)))
EVIDENCE = os.environ.get('VERIF_EVIDENCE_DIR') or os.path.join(HERE, 'evidence')
REPLAY = os.environ.get('VERIF_REPLAY_DIR') or os.path.join(HERE, 'replay')
LEDGER = os.path.join(HERE, 'ledger')
KNOWN = os.path.join(HERE, 'known_findings.json')
NATIVE_PY = os.environ.get('VERIF_NATIVE_PYTHON', '/venv/bin/python')

_last = {}
PARTIAL = False  # set by `--only`: a partial run cannot generate every ledger clause; the completeness check is skipped (and said so)


def load_known():
    if os.path.exists(KNOWN):
        return json.load(open(KNOWN))
    return {'findings': [], 'fixed': []}


def load_ledger(prop):
    p = os.path.join(LEDGER, prop + '.json')
    if os.path.exists(p):
        return json.load(open(p))
    return None


_native_cache = {}


def run_native(script, timeout=300):
    """Run a replay script against the real code (nutils is installed editable from /repo/src).
    Identical scripts (same recipe for several obligations of one contract) are run once per check."""
    if script in _native_cache:
        return _native_cache[script]
    r = _native_cache[script] = _run_native(script, timeout)
    return r


def _run_native(script, timeout=300):
    env = dict(os.environ)
    env.pop('PYTHONPATH', None)
    env['PYTHONDONTWRITEBYTECODE'] = '1'
    repo = os.environ.get('VERIF_REPO', '/repo')
    env['PYTHONPATH'] = os.path.join(repo, 'src')
    try:
        p = subprocess.run([NATIVE_PY, '-c', script], capture_output=True, text=True, timeout=timeout, cwd='/', env=env)
        return p.returncode, p.stdout, p.stderr
    except subprocess.TimeoutExpired:
        return -1, '', 'replay timed out'


def replay_obligation(ob):
    """Returns (confirmed: bool|None, script, output)."""
    c = getattr(ob, 'contract', None)
    script = None
    if c is not None and ob.model is not None:
        try:
            script = c.replay(ob)
        except Exception as e:
            return None, None, 'replay recipe failed: %r' % (e,)
    if not script and getattr(ob, 'replay_script', None):
        script = ob.replay_script
    if not script:
        return None, None, 'no replay recipe for this obligation'
    rc, out, err = run_native(script)
    confirmed = 'REPLAY: VIOLATION-CONFIRMED' in out
    return confirmed, script, (out + ('\n[stderr]\n' + err[-3000:] if err.strip() else ''))[-6000:]


def write_replay_file(prop, ob, confirmed, script, output):
    os.makedirs(REPLAY, exist_ok=True)
    h = hashlib.sha1(ob.name.encode()).hexdigest()[:10]
    path = os.path.join(REPLAY, '%s-%s.json' % (prop, h))
    fn = None
    c = getattr(ob, 'contract', None)
    try:
        fn = c.function().describe() if c is not None else None
    except Exception:
        fn = None
    d = dict(property=prop, obligation=ob.name, function=fn, clause=ob.clause, kind=ob.kind, info=ob.info,
             solver=dict(status=ob.status, backend=ob.backend, seconds=round(ob.seconds, 3), output=ob.output),
             model=ob.model, confirmed_on_real_code=bool(confirmed), replay_script=script, replay_output=output,
             how_to_replay='./check %s --replay %s' % (prop, os.path.relpath(path, HERE)))
    try:
        d['smt2'] = ob.smt2()[:20000]
    except Exception:
        pass
    json.dump(d, open(path, 'w'), indent=1, default=str)
    return os.path.relpath(path, HERE) if path.startswith(HERE) else path


def replay_file(path):
    d = json.load(open(path if os.path.isabs(path) else os.path.join(HERE, path)))
    print('obligation:', d['obligation'])
    if not d.get('replay_script'):
        print('no replay script recorded (no-failing-input-found); solver output:', d['solver'])
        return 1
    rc, out, err = run_native(d['replay_script'])
    print(out)
    if err.strip():
        print(err[-2000:], file=sys.stderr)
    if 'REPLAY: VIOLATION-CONFIRMED' in out:
        print('VIOLATION property=%s replay=%s' % (d['property'], path))
        return 1
    return 0


def finding_matches(f, ob):
    if f.get('function') != ob.fn:
        return False
    if f.get('match_suffix'):  # a family of clauses of one contract (e.g. the recorded failures of a native grid)
        return (ob.clause or '').endswith(f['match_suffix'])
    return f.get('clause') in (None, ob.clause)


def conclude(prop, tier, seed, mod, cresults, obligations, wall, extra_info=None, verbose=False, only=None):
    covers = [o for o in obligations if o.kind == 'cover']
    obligations = [o for o in obligations if o.kind != 'cover']
    known = load_known()
    findings = [f for f in known.get('findings', []) if f.get('property') == prop]
    ledger = load_ledger(prop)
    by_status = {}
    for ob in obligations:
        by_status.setdefault(ob.status, []).append(ob)
    proved = by_status.get('proved', [])
    refuted = by_status.get('refuted', [])
    unknown = by_status.get('unknown', []) + by_status.get('error', []) + by_status.get(None, [])
    # a single infeasible path is harmless (the pruning solver is incomplete); a contract ALL of whose paths are
    # contradictory proves nothing
    vacuous = []
    byc = {}
    for o in covers:
        byc.setdefault(o.fn, []).append(o)
    for fnkey, cs in byc.items():
        if cs and all(o.status == 'vacuous' for o in cs):
            vacuous += cs
    for cr in cresults:
        if getattr(cr, 'vacuous_return', False) and cr.status == 'ok' and all(o.status == 'proved' for o in cr.obligations):
            cr.status, cr.reason = 'error', 'vacuous: no returning path and every raising path is justified (outcomes %s)' % cr.outcomes
    undecided_contracts = [cr for cr in cresults if cr.status == 'undecided']
    error_contracts = [cr for cr in cresults if cr.status == 'error']

    # which contracts are fully discharged (for carve-outs)
    fully = {}
    for cr in cresults:
        k = cr.contract.key()
        real = [o for o in cr.obligations if o.kind != 'cover']  # a single contradictory path is harmless (incomplete pruning); vacuity of the whole contract is an error elsewhere
        fully[k] = cr.status == 'ok' and bool(real) and all(o.status == 'proved' for o in real)

    lines = []
    violations = []
    known_hits = []
    undecided = []
    for ob in refuted:
        fs = [f for f in findings if finding_matches(f, ob)]
        excused = False
        for f in fs:
            carve = f.get('carve_out')
            if carve is None or fully.get(carve):
                excused = True
                known_hits.append((f, ob))
                break
        if excused:
            continue
        confirmed, script, output = replay_obligation(ob)
        in_ledger = ledger is not None and ('%s|%s' % (ob.fn, ob.clause)) in ledger.get('discharged', [])
        if not in_ledger and ledger is not None and (ob.clause or '').startswith('no-raise') and any(ent.startswith(ob.fn + '|') for ent in ledger.get('discharged', [])):
            # an exception no contract clause allows, on a contract that was fully discharged on the pinned tree: there every path of this
            # contract returned or raised justifiably, so the new escaping exception is a regression of a discharged contract
            in_ledger = True
        only_bounded = 'bounded instance' in (ob.backend or '')
        if confirmed:
            path = write_replay_file(prop, ob, True, script, output)
            violations.append((ob, path, ''))
        elif in_ledger or ledger is None:
            path = write_replay_file(prop, ob, False, script, output)
            violations.append((ob, path, ' no-failing-input-found'))
        else:
            undecided.append((ob, 'refuted by the solver but neither replayed on the real code nor previously discharged'))
    for ob in unknown:
        undecided.append((ob, 'solver: %s %s' % (ob.status, (ob.output or '')[:200])))

    # ledger: every clause discharged on the pinned tree must be generated again
    missing = []
    if ledger is not None:
        present = set('%s|%s' % (o.fn, o.clause) for o in obligations)
        for ent in ledger.get('discharged', []):
            if only and only not in ent.split('|')[0]:
                continue  # --only: ledger completeness is checked for the selected contracts
            if ent not in present:
                missing.append(ent)

    seen_f = set()
    for f, ob in known_hits:
        key = (f.get('function'), f.get('clause'))
        if key in seen_f:
            continue
        seen_f.add(key)
        lines.append('KNOWN-FINDING: property=%s %s %s: %s' % (prop, f.get('function'), f.get('clause') or '', f.get('what', '')))
    for ob, path, suffix in violations:
        lines.append('obligation failed: %s  [%s, %s]' % (ob.name, ob.backend, 'input replayed on the real code' if not suffix else 'no replayable input'))
    seen_v = set()
    for ob, path, suffix in violations:
        if path in seen_v:
            continue
        seen_v.add(path)
        lines.append('VIOLATION property=%s replay=%s%s' % (prop, path, suffix))

    rc = 0
    if violations:
        rc = 1
    elif error_contracts or vacuous:
        rc = 3
    elif undecided or undecided_contracts or missing:
        rc = 2
    if not obligations and rc == 0:
        rc = 3
        lines.append('CHECKER-ERROR: zero obligations generated')

    for cr in error_contracts:
        lines.append('CHECKER-ERROR: %s: %s' % (cr.contract.key(), cr.reason[:2000]))
    for ob in vacuous:
        lines.append('CHECKER-ERROR: vacuous path (contradictory hypotheses): %s' % ob.name)
    for cr in undecided_contracts:
        lines.append('UNDECIDED: %s: %s' % (cr.contract.key(), cr.reason[:500]))
    for ob, why in undecided[:40]:
        lines.append('UNDECIDED: %s: %s' % (ob.name, why))
    for ent in missing:
        lines.append('UNDECIDED: ledger clause not generated on this tree: %s' % ent)

    nb = [o for o in obligations if o.bounded]
    np_ = [o for o in obligations if not o.bounded]
    summary = '%s %s: %d obligations (%d unbounded, %d bounded), %d discharged, %d refuted (%d known findings), %d undecided; %d functions; %.1fs' % (
        prop, tier, len(obligations), len(np_), len(nb), len(proved), len(refuted), len(known_hits), len(unknown), len(set(cr.contract.fn for cr in cresults)), wall)
    print(summary + (' [partial run (--only): ledger completeness checked for the selected contracts only]' if PARTIAL else ''))
    for l in lines:
        print(l)
    _last[prop] = dict(obligations=obligations, cresults=cresults)
    write_evidence(prop, tier, seed, mod, cresults, obligations, wall, rc, violations, known_hits, undecided, extra_info, covers)
    return rc


def update_ledger(prop):
    d = _last.get(prop)
    if not d:
        return
    os.makedirs(LEDGER, exist_ok=True)
    ent = sorted(set('%s|%s' % (o.fn, o.clause) for o in d['obligations'] if o.status == 'proved'))
    json.dump({'property': prop, 'discharged': ent}, open(os.path.join(LEDGER, prop + '.json'), 'w'), indent=1)
    print('ledger written: %d clauses' % len(ent))


def write_evidence(prop, tier, seed, mod, cresults, obligations, wall, rc, violations, known_hits, undecided, extra_info, covers=()):
    os.makedirs(EVIDENCE, exist_ok=True)
    proved = [o for o in obligations if o.status == 'proved']
    excused = set(id(ob) for f, ob in known_hits)
    # obligations that fail only because of a recorded known finding are reported separately (their carve-out
    # contract carries the proof); they are neither counted as obligations nor as discharged
    unb = [o for o in obligations if not o.bounded and id(o) not in excused]
    unb_proved = [o for o in unb if o.status == 'proved']
    backends = {}
    for o in proved:
        backends[o.backend] = backends.get(o.backend, 0) + 1
    functions = []
    axioms = set()
    dropped = set()
    for cr in cresults:
        fnd = cr.fn.describe() if cr.fn is not None else {'ref': cr.contract.fn}
        fnd.update(contract=cr.contract.key(), paths=cr.paths, outcomes=cr.outcomes, status=cr.status,
                   obligations=sum(1 for o in cr.obligations if o.kind != 'cover'), discharged=sum(1 for o in cr.obligations if o.status == 'proved' and o.kind != 'cover'),
                   bounded=cr.contract.bounded, generation_s=round(cr.seconds, 2),
                   canaries=getattr(cr, 'canary', {}), doc=(cr.contract.__doc__ or '').strip()[:300])
        if cr.reason:
            fnd['reason'] = cr.reason[:500]
        if getattr(cr, 'also', None):
            fnd['also_executed'] = [f.describe() for f in cr.also.values()]
        functions.append(fnd)
        axioms |= cr.axioms
        dropped |= cr.dropped
    samples = []
    for o in (proved[:2] + [x for x in obligations if x.status != 'proved'][:2]):
        try:
            txt = o.smt2()
        except Exception:
            txt = ''
        if not isinstance(txt, str):
            txt = str(txt)
        samples.append(dict(name=o.name, kind=o.kind, status=o.status, backend=o.backend, seconds=round(o.seconds, 3), smt2=txt[:3000]))
    known_count = len(known_hits)
    level = getattr(mod, 'LEVEL', 'proof')
    trusted = list(getattr(mod, 'TRUSTED', [])) + sorted(axioms)
    cov = dict(
        obligations=len(unb), discharged=len(unb_proved),  # unbounded proof obligations only; bounded stand-ins are listed separately
        all_obligations_including_bounded=len(obligations),
        bounded_obligations=len(obligations) - len(unb), bounded_discharged=len(proved) - len(unb_proved),
        refuted=sum(1 for o in obligations if o.status == 'refuted'), known_finding_obligations=known_count,
        undecided=sum(1 for o in obligations if o.status not in ('proved', 'refuted')),
        checker_cmd='./check %s --tier %s  (pyvc: ast->z3 VC generator over %s/src/nutils, python3-vt)' % (prop, tier, os.environ.get('VERIF_REPO', '/repo')),
        backends=backends, solver_seconds=round(sum(o.seconds for o in obligations), 2),
        slowest=[dict(name=o.name, seconds=round(o.seconds, 2)) for o in sorted(obligations, key=lambda o: -o.seconds)[:5]],
        trusted_base=trusted, functions=functions, dropped_syntax=sorted(dropped), samples=samples,
        obligation_names=[dict(n=o.name, s=o.status, b=o.backend, t=round(o.seconds, 3), bounded=o.bounded) for o in obligations][:1500],
        exit_code=rc,
        vacuity_checks=dict(paths_checked=len(covers), contradictory=sum(1 for o in covers if o.status == 'vacuous'),
                            rule='per path: the path hypotheses alone must not be refutable (5 s budget; sat or unknown passes)'),
        evaluations=len(obligations), distinct_nontrivial=len(set((o.fn, o.clause) for o in proved)),
        rule='one SMT obligation per (function, feasible path, contract clause); distinct = distinct (function, clause) pairs discharged',
    )
    if extra_info:
        cov['extra'] = extra_info.get('summary')
        if extra_info.get('thorough'):
            cov['thorough_self_checks'] = extra_info['thorough']
    ev = dict(property_id=prop, tier=tier, seed=seed, level=level, coverage=cov,
              assumptions=list(getattr(mod, 'ASSUMPTIONS', [])), wall_s=round(wall, 2), violations=len(violations))
    ev['coverage']['not_covered'] = list(getattr(mod, 'NOT_COVERED', []))
    # a partial run (--only) must not overwrite the evidence of the full check
    json.dump(ev, open(os.path.join(EVIDENCE, prop + ('.partial.json' if PARTIAL else '.json')), 'w'), indent=1, default=str)
