"""Python lists that grow by a symbolic number of items inside an invariant-carrying loop.

  ChunkList   a list of 1-D arrays, modelled by (number of chunks k, the concatenation of the chunks).  Exact for the operations
              it offers -- append(array), truthiness / len (k), numpy.concatenate(list) -- because each of them is a function of
              k and of the concatenation only.  Every other operation is Unsupported, so the list is APPEND-ONLY; that is what
              makes the havoc at a loop head precise: the prefix that existed at loop entry is kept, only a tail of unknown
              length (>= 0 further chunks) is arbitrary.
  IntList     nparr.SList (a list of ints) plus extend(array | list) and the same append-only havoc; item stores are refused.
  np_concatenate   numpy.concatenate that also accepts a ChunkList (ValueError for the empty list, like numpy).

Nothing here is installed globally: a contract opts in through `local_repr` (which local list literals are represented this
way) and `Numpy(extra={'concatenate': chunks.np_concatenate})`.
"""
import z3
from .values import Sym, SInt, SBool, PyRaise, Unsupported, zint, is_intlike
from .nparr import Vec, SList, _pick, qforall, unwrap
from . import npext

I = z3.IntSort()
B = z3.BoolSort()
R = z3.RealSort()


def _fresh_sel(ctx, name, kind):
    if kind == 'fp':
        at = z3.Array(ctx.name(name + '.t'), I, I)
        av = z3.Array(ctx.name(name + '.v'), I, R)
        return lambda i: (z3.Select(at, i), z3.Select(av, i))
    a = z3.Array(ctx.name(name), I, {'int': I, 'bool': B, 'real': R}[kind])
    return lambda i: z3.Select(a, i)


def _frame(ctx, kind, n0, old, new):
    """new[j] == old[j] for j < n0 (the prefix an append-only list keeps); written out when n0 is a small numeral."""
    from .nparr import eq_elem
    n0s = z3.simplify(n0)
    if z3.is_int_value(n0s) and n0s.as_long() <= 4:
        for j in range(n0s.as_long()):
            ctx.assume(eq_elem(kind, new(z3.IntVal(j)), old(z3.IntVal(j))))
        return None
    f = qforall(1, lambda j: z3.Implies(z3.And(0 <= j, j < n0), eq_elem(kind, new(j), old(j))))
    ctx.assume(f)
    return f


class TidyVec(Vec):
    """A 1-D array whose slice bounds are simplified with what the path already knows: numpy clamps a[i:j] to [0, len]; when the
    hypotheses of the path prove 0 <= i <= len the clamp is dropped (same value, smaller term).  Elementwise results and slices
    of a TidyVec are tidy too."""

    def slice_bounds(self, ctx, sl):
        if sl.step is not None and not (isinstance(sl.step, int) and sl.step == 1):
            raise Unsupported('slice step')
        n = self.n

        def clamp(x, default):
            if x is None:
                return default
            v = z3.simplify(zint(x))
            if ctx.entails(z3.And(v >= 0, v <= n)):
                return v
            v = z3.If(v < 0, v + n, v)
            return z3.If(v < 0, 0, z3.If(v > n, n, v))
        start, stop = clamp(sl.start, z3.IntVal(0)), clamp(sl.stop, n)
        if ctx.entails(stop >= start):
            return z3.simplify(start), z3.simplify(stop - start)
        return z3.simplify(start), z3.simplify(z3.If(stop > start, stop - start, 0))

    def _tidy(self, r):
        if type(r) is Vec:
            r.__class__ = TidyVec
        return r

    def getitem(self, ctx, idx):
        return self._tidy(super().getitem(ctx, idx))

    def binop(self, ctx, op, other, reflected):
        return self._tidy(super().binop(ctx, op, other, reflected))


class InputVec(TidyVec):
    """An argument array: never written by the function under contract (a store is outside the model), and a loop-head havoc of a
    local that happens to be bound to it rebinds the local to an arbitrary new array instead of changing the argument."""

    def havoc(self, ctx, name):
        return Vec.fresh(ctx, name, self.kind, report=False)

    def _write(self, newsel):
        raise Unsupported('store into an argument array')

    def setitem(self, ctx, idx, value):
        raise Unsupported('store into an argument array')

    def _tidy(self, r):
        if type(r) is Vec:
            r.__class__ = TidyVec if r.base is None else _InputView
        return r


class _InputView(TidyVec):
    """A slice of an argument array (a view: a store would reach the argument)."""

    def _write(self, newsel):
        raise Unsupported('store into a view of an argument array')

    def setitem(self, ctx, idx, value):
        raise Unsupported('store into a view of an argument array')

    def _tidy(self, r):
        if type(r) is Vec:
            r.__class__ = TidyVec if r.base is None else _InputView
        return r


def _arrays(ctx, name, kind):
    if kind == 'fp':
        return (z3.Array(ctx.name(name + '.t'), I, I), z3.Array(ctx.name(name + '.v'), I, R))
    return (z3.Array(ctx.name(name), I, {'int': I, 'bool': B, 'real': R}[kind]),)


def _read(kind, arrs):
    if kind == 'fp':
        return lambda i: (z3.Select(arrs[0], i), z3.Select(arrs[1], i))
    return lambda i: z3.Select(arrs[0], i)


def _define(ctx, kind, arrs, value, what):
    """A fresh array named for a compound value: forall q: A[q] == value(q), with the read A[q] as the E-matching pattern
    (a definitional extension: the symbols of `arrs` are new).  Returns the formula."""
    from . import nparr
    if nparr.BOUND is not None:
        f = qforall(1, lambda q: z3.And(*[z3.Select(a, q) == e for a, e in zip(arrs, value(q) if kind == 'fp' else (value(q),))]))
    else:
        q = z3.Int('q!def')
        vals = value(q) if kind == 'fp' else (value(q),)
        f = z3.And(*[z3.ForAll([q], z3.Select(a, q) == e, patterns=[z3.Select(a, q)]) for a, e in zip(arrs, vals)])
    ctx.assume(f, axiom='definitional extension: a fresh array symbol stands for %s' % what)
    return f


class ChunkList(Sym):
    """see the module docstring; contents are always plain reads of array symbols, so that quantified facts about the list have
    simple E-matching patterns (appending defines a new array symbol by a quantified definition, recorded in `facts`)."""

    def __init__(self, kind, name='chunks'):
        self.kind = kind
        self.k = z3.IntVal(0)
        self.n = z3.IntVal(0)
        self.name = name
        self.arrs = None
        self.facts = []  # definitions and frame facts (quantified hypotheses of the path)

    @staticmethod
    def of_list(ctx, items, kind, name='chunks'):
        c = ChunkList(kind, name)
        c.arrs = _arrays(ctx, name + '0', kind)  # never read while the list is empty
        for x in items:
            c.append(ctx, x)
        return c

    def sel(self, i):
        return _read(self.kind, self.arrs)(i)

    def append(self, ctx, v):
        if not (isinstance(v, Vec) and not isinstance(v, SList) and v.kind == self.kind):
            raise Unsupported('append of %r to a list of %s arrays' % (v, self.kind))
        old, n0, s, kind = _read(self.kind, self.arrs), self.n, npext.snapshot(v), self.kind
        new = _arrays(ctx, self.name + '+', kind)
        self.facts.append(_define(ctx, kind, new, lambda q: _pick(kind, q < n0, old(q), s(q - n0)), 'a list of arrays after append (concatenation)'))
        self.arrs = new
        self.n = z3.simplify(n0 + v.n)
        self.k = z3.simplify(self.k + 1)
        return None

    def havoc(self, ctx, name):
        """Loop-head havoc of an append-only list: the entry prefix stays, >= 0 further chunks of arbitrary content follow."""
        k0, n0, old, kind = self.k, self.n, _read(self.kind, self.arrs), self.kind
        dk, dn = ctx.int('chunks+(%s)' % name, report=False), ctx.int('len+(%s)' % name, report=False)
        ctx.assume(z3.And(dk >= 0, dn >= 0))
        new = _arrays(ctx, name, kind)
        tail = _read(kind, new)
        if kind == 'fp':
            ctx.assume(qforall(1, lambda q: z3.And(tail(q)[0] >= 0, tail(q)[0] <= 3)))
        f = _frame(ctx, kind, n0, old, tail)
        if f is not None:
            self.facts.append(f)
        self.k, self.n, self.arrs = k0 + dk, n0 + dn, new
        return self

    def getattr(self, ctx, name):
        if name == 'append':
            return lambda ctx, v: self.append(ctx, v)
        raise Unsupported('list-of-arrays method %s (the model is append-only)' % name)

    def truth(self, ctx):
        return self.k > 0

    def unop(self, ctx, op):
        if op == 'not':
            return SBool(z3.Not(self.k > 0))
        raise Unsupported('unary %s on a list of arrays' % op)

    def length(self, ctx):
        return SInt(self.k)

    def iterate(self, ctx):
        raise Unsupported('iteration over a list of arrays of symbolic length')

    def as_vec(self):
        return Vec(self.kind, self.n, _read(self.kind, self.arrs), 'concatenate(%s)' % self.name)

    def __repr__(self):
        return 'ChunkList<%s %s k=%s n=%s>' % (self.kind, self.name, self.k, self.n)


class IntList(SList):
    """A Python list of ints of symbolic length that only grows (append / extend); contents are reads of one array term."""

    def __init__(self, n, arr, name='list'):
        self.arr = arr
        super().__init__(n, None, name)
        self.facts = []

    @property
    def _sel(self):
        a = self.arr
        return lambda i: z3.Select(a, i)

    @_sel.setter
    def _sel(self, v):
        if v is not None:
            raise Unsupported('rebinding the contents of a growing list')

    @staticmethod
    def of_list(ctx, items, name='list'):
        if not all(is_intlike(x) for x in items):
            raise Unsupported('list of non-integers %r' % (items,))
        a = z3.Array(ctx.name(name + '0'), I, I)
        for k, x in enumerate(items):
            a = z3.Store(a, k, zint(x))
        return IntList(z3.IntVal(len(items)), a, name)

    def norm_index(self, ctx, idx):
        i = z3.simplify(zint(idx))
        if not ctx.branch(z3.And(i >= -self.n, i < self.n)):
            raise PyRaise('IndexError', note='list index out of range')
        return z3.simplify(z3.If(i < 0, i + self.n, i))

    def havoc(self, ctx, name):
        n0, old = self.n, self._sel
        dn = ctx.int('len+(%s)' % name, report=False)
        ctx.assume(dn >= 0)
        new = z3.Array(ctx.name(name), I, I)
        f = _frame(ctx, 'int', n0, old, lambda i: z3.Select(new, i))
        if f is not None:
            self.facts.append(f)
        self.n, self.arr = n0 + dn, new
        return self

    def setitem(self, ctx, idx, value):
        raise Unsupported('item store into a growing list (the model is append-only)')

    def getattr(self, ctx, name):
        if name == 'append':
            def append(ctx, v):
                self.arr = z3.Store(self.arr, self.n, zint(v))
                self.n = z3.simplify(self.n + 1)
                return None
            return append
        if name == 'extend':
            def extend(ctx, v):
                if isinstance(v, (list, tuple)) and all(is_intlike(x) for x in v):
                    for x in v:
                        self.getattr(ctx, 'append')(ctx, x)
                    return None
                if not (isinstance(v, Vec) and v.kind == 'int'):
                    raise Unsupported('list.extend(%r)' % (v,))
                old, n0, s = self._sel, self.n, npext.snapshot(v)
                new = z3.Array(ctx.name(self.name + '+'), I, I)
                self.facts.append(_define(ctx, 'int', (new,), lambda q: z3.If(q < n0, old(q), s(q - n0)), 'a list after extend'))
                self.arr = new
                self.n = z3.simplify(n0 + v.n)
                return None
            return extend
        if name == '__len__':
            return lambda ctx: SInt(self.n)
        raise Unsupported('list method %s on a growing list' % name)

    def copy(self):
        return Vec('int', self.n, self._sel, 'array(%s)' % self.name)

    def unop(self, ctx, op):
        if op == 'not':
            return SBool(z3.Not(self.n > 0))
        raise Unsupported('unary %s on a list' % op)


def np_concatenate(ctx, parts, axis=0, dtype=None):
    if isinstance(parts, ChunkList):
        if axis != 0 or dtype is not None:
            raise Unsupported('numpy.concatenate variant')
        if not ctx.branch(parts.k > 0):
            raise PyRaise('ValueError', note='need at least one array to concatenate')
        ctx.used_axioms.add('numpy.concatenate(list of 1-D arrays) = the arrays laid end to end (ValueError for an empty list)')
        return parts.as_vec()
    return npext.np_concatenate(None, ctx, parts, axis=axis, dtype=dtype)
