"""pyvc -- a small verification-condition generator for a subset of Python.

It re-reads real function bodies from /repo with `ast`, executes them
symbolically path by path, and emits one SMT obligation per (path, clause).
See /verif/DESIGN.md section 2 for the semantics it assumes.
"""
