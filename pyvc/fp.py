"""SFp: an IEEE-754 scalar used for CONTROL FLOW only (DESIGN 2.2).

value = (tag, payload) with tag in {FIN, PINF, NINF, NAN} and a Real payload.  Comparisons follow IEEE (anything
compared with nan is false), truthiness and Python's max/min scanning follow CPython.  Arithmetic is NOT
interpreted: every arithmetic result is a fresh unconstrained SFp (an over-approximation: whatever the numerics
return, the control flow around them is certified or rejected).
"""
import z3
from .values import Sym, SBool, SInt, SReal, SExt, PyRaise, Unsupported, zint, zreal, is_intlike, FIN, PINF, NINF, NAN


class SFp(Sym):
    def __init__(self, t, v):
        self.t = t if z3.is_expr(t) else z3.IntVal(t)
        self.v = v if z3.is_expr(v) else z3.RealVal(v)

    @staticmethod
    def fresh(ctx, name, report=True):
        t = ctx.int(name + '.t', report=report)
        v = ctx.real(name + '.v', report=report)
        ctx.assume(z3.And(t >= 0, t <= 3))
        return SFp(t, v)

    @staticmethod
    def lift(x):
        if isinstance(x, SFp):
            return x
        if isinstance(x, float):
            if x != x:
                return SFp(NAN, 0)
            if x == float('inf'):
                return SFp(PINF, 0)
            if x == float('-inf'):
                return SFp(NINF, 0)
            return SFp(FIN, zreal(x))
        if isinstance(x, SReal):
            return SFp(FIN, x.v)
        if is_intlike(x):
            return SFp(FIN, z3.ToReal(zint(x)) if not isinstance(x, (int, bool)) else z3.RealVal(int(x)))
        if isinstance(x, SExt):
            return SFp(x.t, z3.ToReal(x.v))
        raise TypeError(x)

    @staticmethod
    def liftable(x):
        return isinstance(x, (SFp, float, SReal, SExt)) or is_intlike(x)

    def isnan(self):
        return self.t == NAN

    def isfinite(self):
        return self.t == FIN

    def truth(self, ctx):
        return z3.Not(z3.And(self.t == FIN, self.v == 0))

    def isinstance_(self, ctx, types):
        return float in types

    def lt(a, b):
        nn = z3.And(a.t != NAN, b.t != NAN)
        return z3.And(nn, z3.Or(z3.And(a.t == NINF, b.t != NINF), z3.And(b.t == PINF, a.t != PINF), z3.And(a.t == FIN, b.t == FIN, a.v < b.v)))

    def le(a, b):
        nn = z3.And(a.t != NAN, b.t != NAN)
        return z3.And(nn, z3.Or(a.t == NINF, b.t == PINF, z3.And(a.t == FIN, b.t == FIN, a.v <= b.v)))

    def eq(a, b):
        return z3.And(a.t != NAN, b.t != NAN, a.t == b.t, z3.Or(a.t != FIN, a.v == b.v))

    def same(a, b):
        """bitwise-same value (nan == nan here); used in frame conditions"""
        return z3.And(a.t == b.t, z3.Or(a.t != FIN, a.v == b.v))

    def ite(c, a, b):
        return SFp(z3.If(c, a.t, b.t), z3.If(c, a.v, b.v))

    def merge_with(self, c, other, reflected):
        if not SFp.liftable(other):
            return NotImplemented
        o = SFp.lift(other)
        return SFp.ite(c, o, self) if reflected else SFp.ite(c, self, o)

    def compare(self, ctx, op, other, reflected):
        if not SFp.liftable(other):
            if op == '==':
                return False
            if op == '!=':
                return True
            return NotImplemented
        o = SFp.lift(other)
        a, b = (o, self) if reflected else (self, o)
        r = {'<': lambda: a.lt(b), '<=': lambda: a.le(b), '>': lambda: b.lt(a), '>=': lambda: b.le(a),
             '==': lambda: a.eq(b), '!=': lambda: z3.Not(a.eq(b))}[op]()
        return SBool(r)

    def binop(self, ctx, op, other, reflected):
        if not SFp.liftable(other):
            return NotImplemented
        if op in ('+', '-', '*', '/', '**', '//', '%'):
            ctx.used_axioms.add('floating-point arithmetic is uninterpreted (a function of its operands, nothing more)')
            if op in ('/', '//', '%') and not reflected and not isinstance(other, SFp) and not isinstance(other, Sym) and other == 0:
                raise PyRaise('ZeroDivisionError')
            o = SFp.lift(other)
            a, b = (o, self) if reflected else (self, o)
            return fp_apply(ctx, {'+': 'add', '-': 'sub', '*': 'mul', '/': 'div', '**': 'pow', '//': 'fdiv', '%': 'mod'}[op], a, b)
        raise Unsupported('float op ' + op)

    def unop(self, ctx, op):
        if op == '-':
            return SFp(z3.If(self.t == PINF, NINF, z3.If(self.t == NINF, PINF, self.t)), -self.v)
        if op == '+':
            return self
        if op == 'abs':
            return SFp(z3.If(self.t == NINF, PINF, self.t), z3.If(self.v < 0, -self.v, self.v))
        if op == 'not':
            return SBool(z3.Not(self.truth(ctx)))
        raise Unsupported('float unary ' + op)

    def havoc(self, ctx, name):
        return SFp.fresh(ctx, name, report=False)

    def __repr__(self):
        return 'SFp(%s,%s)' % (self.t, self.v)


_FUNS = {}


def fp_apply(ctx, name, *args):
    """Uninterpreted float function of SFp arguments: the same operands give the same result, nothing else is known."""
    sig = []
    terms = []
    for a in args:
        sig += [z3.IntSort(), z3.RealSort()]
        terms += [a.t, a.v]
    key = (name, len(args))
    if key not in _FUNS:
        _FUNS[key] = (z3.Function('fp.%s.t' % name, *sig, z3.IntSort()), z3.Function('fp.%s.v' % name, *sig, z3.RealSort()))
    ft, fv = _FUNS[key]
    r = SFp(ft(*terms), fv(*terms))
    ctx.assume(z3.And(r.t >= 0, r.t <= 3))
    hook = getattr(ctx, 'fp_hook', None)
    if hook is not None:
        # per-context hook: a contract may state exact IEEE facts about one operation (ctx.assume(..., axiom=...)) or model
        # the Python-level exception the operation can raise (OverflowError of float ** int); never changes r
        hook(ctx, name, args, r)
    return r
