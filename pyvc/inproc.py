"""In-process discharge for contracts whose obligations are ground or tiny quantifier-free queries.

`class X(InProc, Contract)`: after generation every obligation is first tried with z3 in the checking process (3 s limit);
`unsat` proves it, `sat` refutes it (the model is kept for the replay), for path covers `sat` means non-vacuous.  `unknown`
and errors leave the obligation to the usual forked discharge (pyvc.discharge), so nothing is decided differently -- only
without one forked solver process per obligation, which under load costs seconds each.
Native replays are limited to the first refuted obligation of each clause (`replay_once`); the others are reported from the
ledger."""
import time
import z3


class InProc:
    _replayed = None

    def decide(self):
        from .contract import generate
        cr = generate(self)
        for ob in cr.obligations:
            try:
                decide_in_process(ob)
            except Exception:
                pass
        return cr

    def replay_once(self, ob):
        if self._replayed is None:
            self._replayed = set()
        if ob.clause in self._replayed:
            return False
        self._replayed.add(ob.clause)
        return True


def decide_in_process(ob, timeout_ms=3000):
    t0 = time.time()
    s = z3.Solver()
    s.set('timeout', timeout_ms)
    for h in ob.hyps:
        s.add(h)
    if ob.kind == 'cover':
        r = s.check()
        if r == z3.sat:
            ob.status, ob.decided = 'proved', True
        elif r == z3.unsat:
            ob.status, ob.decided = 'vacuous', True
    else:
        s.add(z3.Not(ob.goal))
        r = s.check()
        if r == z3.unsat:
            ob.status, ob.decided = 'proved', True
        elif r == z3.sat:
            m = s.model()
            ob.model = {}
            for d in m.decls():
                if d.arity() == 0:
                    ob.model[d.name()] = str(m[d])
            ob.status, ob.decided = 'refuted', True
    if getattr(ob, 'decided', False):
        ob.backend, ob.seconds, ob.output = 'z3-%s (in-process)' % z3.get_version_string(), time.time() - t0, ''
