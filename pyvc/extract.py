"""Locate functions under contract in the repository's *current* working tree.

A function reference is ``<module>:<QualName>`` where module is relative to
``src/nutils`` (``evaluable``, ``matrix/__init__``, ``matrix/_base`` ...) and
QualName is ``Class.method``, ``function`` or ``function.<inner>`` for a nested
def.  Nothing is cached between runs: every check re-parses the file.
"""
import ast, hashlib, os

REPO = os.environ.get('VERIF_REPO', '/repo')
SRCROOT = os.path.join(REPO, 'src', 'nutils')


class NotFound(Exception):
    pass


_cache = {}


def module_path(module):
    return os.path.join(SRCROOT, module + '.py')


def module_ast(module):
    path = module_path(module)
    if path not in _cache:
        if not os.path.exists(path):
            raise NotFound('module file missing: ' + path)
        src = open(path).read()
        _cache[path] = (src, ast.parse(src))
    return _cache[path]


class Fn:
    """An extracted function: AST node plus provenance."""

    def __init__(self, ref, module, node, src, cls=None):
        self.ref = ref
        self.module = module
        self.node = node
        self.cls = cls  # enclosing ast.ClassDef or None
        lines = src.split('\n')
        self.source = '\n'.join(lines[node.lineno - 1:node.end_lineno])
        self.file = os.path.relpath(module_path(module), REPO)
        self.lineno = node.lineno
        self.end_lineno = node.end_lineno
        self.sha256 = hashlib.sha256(self.source.encode()).hexdigest()

    def describe(self):
        return dict(ref=self.ref, file=self.file, lines=[self.lineno, self.end_lineno], sha256=self.sha256[:16])


def _find_in(body, name, kinds):
    occ = 0
    if '@' in name:  # name@K: the K-th definition of that name in this body (0-based)
        name, k = name.split('@')
        occ = int(k)
    seen = 0
    for n in body:
        if isinstance(n, kinds) and n.name == name:
            if seen == occ:
                return n
            seen += 1
            continue
        # look through `if`/`try` at module level (rare)
        if isinstance(n, (ast.If, ast.Try)):
            for sub in ([n.body, n.orelse] if isinstance(n, ast.If) else [n.body, n.orelse, n.finalbody]):
                r = _find_in(sub, name, kinds)
                if r is not None:
                    return r
    return None


def get(ref):
    module, qual = ref.split(':')
    src, tree = module_ast(module)
    parts = qual.split('.')
    body = tree.body
    cls = None
    node = None
    for i, p in enumerate(parts):
        last = i == len(parts) - 1
        if last:
            node = _find_in(body, p, (ast.FunctionDef, ast.AsyncFunctionDef))
            if node is None:
                raise NotFound(ref)
        else:
            n = _find_in(body, p, (ast.ClassDef, ast.FunctionDef))
            if n is None:
                raise NotFound(ref)
            if isinstance(n, ast.ClassDef):
                cls = n
            body = n.body
    return Fn(ref, module, node, src, cls)


def get_class(module, name):
    src, tree = module_ast(module)
    n = _find_in(tree.body, name, (ast.ClassDef,))
    if n is None:
        raise NotFound(module + ':' + name)
    return n


def class_assign(module, clsname, attr):
    """Return the AST of the value assigned to `attr` in the class body (or None)."""
    c = get_class(module, clsname)
    for n in c.body:
        if isinstance(n, ast.Assign) and any(isinstance(t, ast.Name) and t.id == attr for t in n.targets):
            return n.value
        if isinstance(n, ast.AnnAssign) and isinstance(n.target, ast.Name) and n.target.id == attr and n.value is not None:
            return n.value
    return None


def class_bases(module, clsname):
    return [ast.unparse(b) for b in get_class(module, clsname).bases]


def classes_defining(module, method):
    """All (class name, FunctionDef) in `module` whose body defines `method`."""
    src, tree = module_ast(module)
    out = []
    for c in tree.body:
        if isinstance(c, ast.ClassDef):
            for f in c.body:
                if isinstance(f, ast.FunctionDef) and f.name == method:
                    out.append((c.name, f))
    return out


def resolve_method(module, clsname, method):
    """Find `method` in clsname or (single-inheritance, same module) its bases; returns the Fn."""
    seen = set()
    name = clsname
    while name and name not in seen:
        seen.add(name)
        try:
            c = get_class(module, name)
        except NotFound:
            break
        for f in c.body:
            if isinstance(f, ast.FunctionDef) and f.name == method:
                return get('%s:%s.%s' % (module, name, method))
        name = None
        for b in c.bases:
            if isinstance(b, ast.Name):
                name = b.id
                break
    raise NotFound('%s:%s.%s (via MRO)' % (module, clsname, method))
