"""Python operator and builtin semantics over mixed concrete/symbolic values."""
import operator, builtins as _b
import z3
from .values import (Sym, SBool, SInt, SExt, SReal, SObj, SOpaque, BoundMethod, PyRaise, NeedFork, Unsupported,
                     merge, zbool, zint, is_intlike, is_extfloat, FIN)

_BIN = {'+': operator.add, '-': operator.sub, '*': operator.mul, '/': operator.truediv, '//': operator.floordiv,
        '%': operator.mod, '**': operator.pow, '@': operator.matmul, '&': operator.and_, '|': operator.or_,
        '^': operator.xor, '<<': operator.lshift, '>>': operator.rshift}
_CMP = {'<': operator.lt, '<=': operator.le, '>': operator.gt, '>=': operator.ge, '==': operator.eq, '!=': operator.ne}

_PYEXC = (ZeroDivisionError, TypeError, ValueError, IndexError, KeyError, AttributeError, OverflowError, StopIteration, AssertionError)


def pyraise_from(e):
    return PyRaise(type(e).__name__, note=str(e))


def has_sym(v, depth=3):
    if isinstance(v, Sym):
        return True
    if depth and isinstance(v, (tuple, list)):
        return any(has_sym(x, depth - 1) for x in v)
    return False


class ClassRef:
    """Stand-in for a repository class referenced by name (isinstance targets, constructors)."""

    def __init__(self, name, construct=None, attrs=None):
        self.__name__ = name
        self.construct = construct
        self.attrs = attrs or {}

    def __repr__(self):
        return 'ClassRef(%s)' % self.__name__


class ExcInstance(Sym):
    """An exception object created by the program."""

    def __init__(self, cls, args=(), attrs=None):
        self.cls = cls
        self.args = tuple(args)
        self.attrs = dict(attrs or {})

    def getattr(self, ctx, name):
        if name == 'args':
            return self.args
        if name in self.attrs:
            return self.attrs[name]
        raise PyRaise('AttributeError', note='%s.%s' % (self.cls, name))

    def setattr(self, ctx, name, value):
        self.attrs[name] = value

    def truth(self, ctx):
        return True

    def __repr__(self):
        return 'ExcInstance(%s)' % self.cls


def truth(ctx, v):
    if isinstance(v, Sym):
        return v.truth(ctx)
    if v is None:
        return False
    if isinstance(v, (bool, int, float, str, bytes, tuple, list, dict, set, frozenset, range)):
        return bool(v)
    if isinstance(v, ClassRef) or callable(v) or isinstance(v, type):
        return True
    if hasattr(v, 'sym_truth'):
        return v.sym_truth(ctx)
    raise Unsupported('truth of %r' % type(v).__name__)


def binop(ctx, op, a, b):
    if isinstance(a, Sym):
        r = a.binop(ctx, op, b, False)
        if r is not NotImplemented:
            return r
    if isinstance(b, Sym):
        r = b.binop(ctx, op, a, True)
        if r is not NotImplemented:
            return r
    if isinstance(a, Sym) or isinstance(b, Sym):
        raise Unsupported('binary %s on %s, %s' % (op, type(a).__name__, type(b).__name__))
    if has_sym(a) or has_sym(b):
        if op == '+' and isinstance(a, (tuple, list)) and type(a) == type(b):
            return a + b
        if op == '*' and isinstance(a, (tuple, list)) and isinstance(b, int) and not isinstance(b, bool):
            return a * b
        if op == '*' and isinstance(b, (tuple, list)) and isinstance(a, int) and not isinstance(a, bool):
            return a * b
        raise Unsupported('binary %s on containers of symbolic values' % op)
    if isinstance(a, float) or isinstance(b, float):
        # concrete floats: only inf/nan arithmetic and exact cases are modelled
        if op in ('//', '%') and (is_extfloat(a) or is_extfloat(b) or isinstance(a, float) or isinstance(b, float)):
            raise PyRaise('ModelError:float-intermediate', note='%s on floats' % op)
    try:
        return _BIN[op](a, b)
    except _PYEXC as e:
        raise pyraise_from(e)


def unop(ctx, op, a):
    if isinstance(a, Sym):
        return a.unop(ctx, op)
    try:
        if op == '-':
            return -a
        if op == '+':
            return +a
        if op == '~':
            return ~a
        if op == 'abs':
            return abs(a)
        if op == 'not':
            t = truth(ctx, a)
            return (not t) if isinstance(t, bool) else SBool(z3.Not(t))
    except _PYEXC as e:
        raise pyraise_from(e)
    raise Unsupported('unary ' + op)


_FLIP = {'<': '>', '<=': '>=', '>': '<', '>=': '<=', '==': '==', '!=': '!='}


def compare(ctx, op, a, b):
    """Returns bool or SBool."""
    if op == 'is':
        return identical(ctx, a, b)
    if op == 'is not':
        r = identical(ctx, a, b)
        return (not r) if isinstance(r, bool) else SBool(z3.Not(r.b))
    if op == 'in':
        return contains(ctx, b, a)
    if op == 'not in':
        r = contains(ctx, b, a)
        return (not r) if isinstance(r, bool) else SBool(z3.Not(zbool(r)))
    if isinstance(a, Sym):
        r = a.compare(ctx, op, b, False)
        if r is not NotImplemented:
            return r
    if isinstance(b, Sym):
        r = b.compare(ctx, op, a, True)
        if r is not NotImplemented:
            return r
    if isinstance(a, Sym) or isinstance(b, Sym):
        if op == '==':
            return a is b
        if op == '!=':
            return a is not b
        raise Unsupported('comparison %s on %s, %s' % (op, type(a).__name__, type(b).__name__))
    if isinstance(a, dict) and isinstance(b, dict) and op in ('==', '!=') and (has_sym(list(a.values())) or has_sym(list(b.values()))):
        # dicts with concrete keys and symbolic values: equal iff same keys and pointwise equal values
        if any(isinstance(k, Sym) for k in list(a) + list(b)):
            raise Unsupported('comparison of dicts with symbolic keys')
        if set(a) != set(b):
            return op == '!='
        parts = [zbool(compare(ctx, '==', a[k], b[k])) for k in a]
        e = z3.And(*parts) if parts else z3.BoolVal(True)
        return SBool(e if op == '==' else z3.Not(e))
    if isinstance(a, (tuple, list)) and isinstance(b, (tuple, list)) and (has_sym(a) or has_sym(b)):
        if type(a) != type(b):
            return op == '!='
        if op in ('==', '!='):
            if len(a) != len(b):
                return op == '!='
            parts = [zbool(compare(ctx, '==', x, y)) for x, y in zip(a, b)]
            e = z3.And(*parts) if parts else z3.BoolVal(True)
            return SBool(e if op == '==' else z3.Not(e))
        raise Unsupported('ordering of tuples with symbolic items')
    try:
        return _CMP[op](a, b)
    except _PYEXC as e:
        raise pyraise_from(e)


def identical(ctx, a, b):
    if a is b:
        return True
    if isinstance(a, Builtin) and isinstance(b, Builtin):
        return a.name == b.name  # `type(x) is str`: a builtin is one object however often it is looked up
    if a is None or b is None:
        if isinstance(a, Sym) and hasattr(a, 'is_none'):
            return a.is_none(ctx)
        if isinstance(b, Sym) and hasattr(b, 'is_none'):
            return b.is_none(ctx)
        return False
    if isinstance(a, Sym) and hasattr(a, 'identical'):
        return a.identical(ctx, b)
    if isinstance(b, Sym) and hasattr(b, 'identical'):
        return b.identical(ctx, a)
    if isinstance(a, (bool, type(None))) or isinstance(b, (bool, type(None))):
        return a is b
    if isinstance(a, Sym) or isinstance(b, Sym):
        return False
    if isinstance(a, (int, str)) and isinstance(b, (int, str)):
        raise Unsupported('`is` on int/str literals')
    return a is b


def contains(ctx, container, item):
    if isinstance(container, Sym):
        return container.contains(ctx, item)
    if isinstance(container, (tuple, list)):
        if not has_sym(container) and not isinstance(item, Sym):
            return item in container
        parts = []
        for x in container:
            r = compare(ctx, '==', x, item)
            if r is True:
                return True
            if r is not False:
                parts.append(zbool(r))
        return SBool(z3.Or(*parts)) if parts else False
    if isinstance(container, dict) and (isinstance(item, Sym) or any(isinstance(k, Sym) for k in container)):
        # association-list reading of a dict with symbolic keys
        parts = []
        for k in container:
            r = compare(ctx, '==', k, item)
            if r is True:
                return True
            if r is not False:
                parts.append(zbool(r))
        return SBool(z3.Or(*parts)) if parts else False
    if isinstance(container, (dict, set, frozenset, str, range, bytes)):
        if isinstance(item, Sym):
            if isinstance(container, (set, frozenset, dict, range)) and isinstance(item, (SInt,)):
                parts = [item.v == k for k in container if isinstance(k, int)]
                return SBool(z3.Or(*parts)) if parts else False
            raise Unsupported('symbolic membership in %s' % type(container).__name__)
        try:
            return item in container
        except _PYEXC as e:
            raise pyraise_from(e)
    if hasattr(container, 'sym_contains'):
        return container.sym_contains(ctx, item)
    raise Unsupported('`in` on %s' % type(container).__name__)


def getitem(ctx, obj, idx):
    if isinstance(obj, Sym):
        return obj.getitem(ctx, idx)
    if isinstance(obj, (tuple, list, str, bytes, range)):
        if isinstance(idx, slice):
            if any(isinstance(x, Sym) for x in (idx.start, idx.stop, idx.step)):
                raise Unsupported('symbolic slice of a concrete sequence')
            return obj[idx]
        if isinstance(idx, (SInt, SBool)):
            # symbolic index into a concrete sequence: range check, then an ite chain
            n = len(obj)
            i = zint(idx)
            if not ctx.branch(z3.And(i >= -n, i < n)):
                raise PyRaise('IndexError')
            try:
                r = None
                for k in range(n - 1, -1, -1):
                    c = z3.Or(i == k, i == k - n)
                    r = obj[k] if r is None else merge(c, obj[k], r)
                return r
            except NeedFork:
                if ctx.pure:
                    raise
                for k in range(n):
                    if ctx.branch(z3.Or(i == k, i == k - n)):
                        return obj[k]
                raise PyRaise('IndexError')
        try:
            return obj[idx]
        except _PYEXC as e:
            raise pyraise_from(e)
    if isinstance(obj, dict):
        if isinstance(idx, Sym) or any(isinstance(k, Sym) for k in obj):
            k = dict_find(ctx, obj, idx)
            if k is _MISSING:
                raise PyRaise('KeyError')
            return obj[k]
        try:
            return obj[idx]
        except _PYEXC as e:
            raise pyraise_from(e)
    if hasattr(obj, 'sym_getitem'):
        return obj.sym_getitem(ctx, idx)
    raise Unsupported('subscript of %s' % type(obj).__name__)


_MISSING = object()


def dict_find(ctx, d, key):
    """The existing key of `d` equal to `key` (forks on symbolic equality), or _MISSING."""
    for k in list(d):
        r = compare(ctx, '==', k, key)
        if isinstance(r, bool):
            if r:
                return k
            continue
        if ctx.branch(zbool(r)):
            return k
    return _MISSING


def setitem(ctx, obj, idx, value):
    if isinstance(obj, Sym):
        return obj.setitem(ctx, idx, value)
    if isinstance(obj, dict) and (isinstance(idx, Sym) or any(isinstance(k, Sym) for k in obj)):
        k = dict_find(ctx, obj, idx)
        obj[idx if k is _MISSING else k] = value
        return
    if isinstance(obj, (list, dict)):
        if isinstance(idx, Sym):
            raise Unsupported('symbolic index store into concrete container')
        try:
            obj[idx] = value
            return
        except _PYEXC as e:
            raise pyraise_from(e)
    if hasattr(obj, 'sym_setitem'):
        return obj.sym_setitem(ctx, idx, value)
    raise Unsupported('subscript store on %s' % type(obj).__name__)


def length(ctx, v):
    if isinstance(v, Sym):
        return v.length(ctx)
    try:
        return len(v)
    except TypeError as e:
        if hasattr(v, 'sym_length'):
            return v.sym_length(ctx)
        raise pyraise_from(e)


def iterate(ctx, v):
    """Return a Python list of the items (fixed size) or raise Unsupported."""
    if isinstance(v, Sym):
        return v.iterate(ctx)
    if isinstance(v, (tuple, list, range, str, bytes)):
        return list(v)
    if isinstance(v, dict):
        return list(v)
    if isinstance(v, (set, frozenset)):
        # set iteration order is arbitrary: only order-insensitive uses are sound; callers that care
        # must model the set symbolically.  We iterate in sorted order when possible and record it.
        ctx.note('iterated a concrete set in sorted order')
        try:
            return sorted(v)
        except TypeError:
            return list(v)
    if hasattr(v, 'sym_iterate'):
        return v.sym_iterate(ctx)
    if hasattr(v, '__iter__') and not isinstance(v, type):
        return list(v)
    raise PyRaise('TypeError', note='not iterable: %r' % type(v).__name__)


def isinstance_(ctx, v, types):
    if not isinstance(types, tuple):
        types = (types,)
    types = tuple(t.type if isinstance(t, Builtin) and t.type is not None else t for t in types)
    if isinstance(v, Sym):
        return v.isinstance_(ctx, types)
    real = tuple(t for t in types if isinstance(t, type))
    if real and isinstance(v, real):
        return True
    for t in types:
        if isinstance(t, ClassRef) and hasattr(v, 'sym_classes') and t.__name__ in v.sym_classes:
            return True
    return False


# ------------------------------------------------------------------ builtins --

def py_min(ctx, *args, **kw):
    if kw:
        raise Unsupported('min with key/default')
    if len(args) == 1 and hasattr(args[0], 'sym_min'):
        return args[0].sym_min(ctx)
    xs = iterate(ctx, args[0]) if len(args) == 1 else list(args)
    if not xs:
        raise PyRaise('ValueError', note='min() of empty')
    r = xs[0]
    for x in xs[1:]:
        c = compare(ctx, '<', x, r)
        if isinstance(c, bool):
            r = x if c else r
        else:
            r = merge(zbool(c), x, r)
    return r


def py_max(ctx, *args, **kw):
    if kw:
        raise Unsupported('max with key/default')
    if len(args) == 1 and hasattr(args[0], 'sym_max'):
        return args[0].sym_max(ctx)
    xs = iterate(ctx, args[0]) if len(args) == 1 else list(args)
    if not xs:
        raise PyRaise('ValueError', note='max() of empty')
    r = xs[0]
    for x in xs[1:]:
        c = compare(ctx, '>', x, r)
        if isinstance(c, bool):
            r = x if c else r
        else:
            r = merge(zbool(c), x, r)
    return r


def py_abs(ctx, x):
    return unop(ctx, 'abs', x)


def py_len(ctx, x):
    return length(ctx, x)


def py_isinstance(ctx, v, t):
    r = isinstance_(ctx, v, t)
    return r if isinstance(r, bool) else SBool(zbool(r))


def py_sum(ctx, it, start=0):
    r = start
    for x in iterate(ctx, it):
        r = binop(ctx, '+', r, x)
    return r


def py_all(ctx, it):
    for x in iterate(ctx, it):
        if not ctx.branch(truth(ctx, x)):
            return False
    return True


def py_any(ctx, it):
    for x in iterate(ctx, it):
        if ctx.branch(truth(ctx, x)):
            return True
    return False


def py_tuple(ctx, it=()):
    return tuple(iterate(ctx, it))


def py_list(ctx, it=()):
    return list(iterate(ctx, it))


def py_range(ctx, *a):
    if any(isinstance(x, Sym) for x in a):
        from .nparr import SRange
        return SRange.make(ctx, *a)
    try:
        return range(*a)
    except _PYEXC as e:
        raise pyraise_from(e)


def py_enumerate(ctx, it, start=0):
    if hasattr(it, 'seq_len') and not isinstance(it, (list, tuple)):
        from .nparr import Enumerated
        return Enumerated(it, start)
    return [(i + start, x) for i, x in enumerate(iterate(ctx, it))]


def py_zip(ctx, *its, strict=False):
    ls = [iterate(ctx, it) for it in its]
    return [tuple(t) for t in zip(*ls)]


def py_reversed(ctx, it):
    return list(reversed(iterate(ctx, it)))


def py_sorted(ctx, it, **kw):
    xs = iterate(ctx, it)
    from .small import SmallSet
    if isinstance(it, SmallSet) and not kw:
        ctx.note('sorted() of a small symbolic set: arbitrary order (only order-insensitive uses are sound)')
        return list(xs)
    if has_sym(xs) or kw:
        raise Unsupported('sorted over symbolic items')
    try:
        return sorted(xs)
    except _PYEXC as e:
        raise pyraise_from(e)


def py_int(ctx, x=0):
    if isinstance(x, (SInt,)):
        return x
    if isinstance(x, SBool):
        return x.as_int()
    if isinstance(x, SExt):
        if not ctx.branch(x.t == FIN):
            raise PyRaise('OverflowError', note='int() of inf/nan')
        return SInt(x.v)
    if hasattr(x, 'sym_int'):
        return x.sym_int(ctx)
    if isinstance(x, Sym):
        raise Unsupported('int() of %s' % type(x).__name__)
    try:
        return int(x)
    except _PYEXC as e:
        raise pyraise_from(e)


def py_float(ctx, x=0.0):
    if isinstance(x, Sym):
        if isinstance(x, SReal):
            return x
        if isinstance(x, (SInt, SBool)):
            return SReal(z3.ToReal(zint(x)))
        raise Unsupported('float() of %s' % type(x).__name__)
    try:
        return float(x)
    except _PYEXC as e:
        raise pyraise_from(e)


def py_bool(ctx, x=False):
    t = truth(ctx, x)
    return t if isinstance(t, bool) else SBool(t)


def py_divmod(ctx, a, b):
    return (binop(ctx, '//', a, b), binop(ctx, '%', a, b))


def py_getattr(ctx, obj, name, *default):
    from .interp import get_attribute
    try:
        return get_attribute(ctx, obj, name)
    except PyRaise as e:
        if e.exc == 'AttributeError' and default:
            return default[0]
        raise


def py_hasattr(ctx, obj, name):
    from .interp import get_attribute
    try:
        get_attribute(ctx, obj, name)
        return True
    except PyRaise as e:
        if e.exc == 'AttributeError':
            return False
        raise


def py_next(ctx, it, *default):
    if hasattr(it, 'sym_next'):
        return it.sym_next(ctx)
    raise Unsupported('next() of %r' % (it,))


def py_slice(ctx, *a):
    return slice(*a)


def py_iter(ctx, x):
    return IterObj(iterate(ctx, x))


class IterObj:
    def __init__(self, items):
        self.items, self.pos = list(items), 0

    def sym_next(self, ctx):
        if self.pos >= len(self.items):
            raise PyRaise('StopIteration')
        self.pos += 1
        return self.items[self.pos - 1]

    def sym_iterate(self, ctx):
        r = self.items[self.pos:]
        self.pos = len(self.items)
        return r


def py_noop(ctx, *a, **k):
    return None


def py_str(ctx, *a, **k):
    if a and hasattr(a[0], 'sym_str'):
        return a[0].sym_str(ctx)
    return SOpaque('str')


def py_type(ctx, x, *rest):
    if rest:
        raise Unsupported('three-argument type()')
    if hasattr(x, 'pytype'):
        return x.pytype(ctx)
    if isinstance(x, Sym):
        raise Unsupported('type() of %s' % type(x).__name__)
    return Builtin(type(x).__name__) if type(x).__name__ in TYPE_OF_BUILTIN else type(x)


def py_set(ctx, it=()):
    from .small import SmallSet
    if isinstance(it, SmallSet):
        return SmallSet(it.elems, False)
    xs = iterate(ctx, it)
    if has_sym(xs):
        from .small import SmallSet
        return SmallSet.build(ctx, xs)
    return set(xs)


def py_frozenset(ctx, it=()):
    from .small import SmallSet
    if isinstance(it, SmallSet):
        return SmallSet(it.elems, True)
    xs = iterate(ctx, it)
    if has_sym(xs):
        from .small import SmallSet
        return SmallSet.build(ctx, xs, frozen=True)
    return frozenset(xs)


def py_dict(ctx, *a, **k):
    d = {}
    if a:
        src = a[0]
        if isinstance(src, dict):
            d.update(src)
        else:
            for kv in iterate(ctx, src):
                kk, vv = iterate(ctx, kv)
                if isinstance(kk, Sym):
                    raise Unsupported('dict with symbolic key')
                d[kk] = vv
    d.update(k)
    return d


def py_callable(ctx, x):
    return callable(x) or isinstance(x, BoundMethod) or hasattr(x, 'call')


BUILTINS = {
    'min': py_min, 'max': py_max, 'abs': py_abs, 'len': py_len, 'isinstance': py_isinstance, 'sum': py_sum,
    'all': py_all, 'any': py_any, 'tuple': py_tuple, 'list': py_list, 'range': py_range, 'enumerate': py_enumerate,
    'zip': py_zip, 'reversed': py_reversed, 'sorted': py_sorted, 'int': py_int, 'float': py_float, 'bool': py_bool,
    'divmod': py_divmod, 'getattr': py_getattr, 'hasattr': py_hasattr, 'print': py_noop, 'str': py_str, 'repr': py_str,
    'set': py_set, 'frozenset': py_frozenset, 'dict': py_dict, 'callable': py_callable, 'next': py_next, 'type': py_type, 'slice': py_slice, 'iter': py_iter,
}
# type objects usable as isinstance targets map to themselves
TYPE_OF_BUILTIN = {'int': int, 'float': float, 'bool': bool, 'tuple': tuple, 'list': list, 'str': str, 'dict': dict,
                   'set': set, 'frozenset': frozenset, 'complex': complex, 'bytes': bytes, 'slice': slice, 'type': type,
                   'object': object}


class Builtin:
    """A builtin that is both callable (modelled) and usable as an isinstance target."""

    def __init__(self, name):
        self.name = name
        self.fn = BUILTINS.get(name)
        self.type = TYPE_OF_BUILTIN.get(name)

    def __eq__(self, other):
        return isinstance(other, Builtin) and other.name == self.name

    def __ne__(self, other):
        return not self.__eq__(other)

    def __hash__(self):
        return hash(('Builtin', self.name))

    def __repr__(self):
        return 'Builtin(%s)' % self.name
