"""Lemma library (DESIGN 2.6): inductive facts used as axiom instances; each names its proof."""
import z3
from .nparr import qforall


def mono(cx, vec, strict=False):
    """L-MONO: adjacent-monotone => monotone (transitive form), for one int array."""
    adj = qforall(1, lambda i: z3.Implies(z3.And(0 <= i, i + 1 < vec.n), vec.sel(i) <= vec.sel(i + 1)))
    trans = qforall(2, lambda i, j: z3.Implies(z3.And(0 <= i, i <= j, j < vec.n), vec.sel(i) <= vec.sel(j)))
    cx.assume(z3.Implies(adj, trans), axiom='L-MONO: adjacent-monotone => monotone (lemmas/LMono.lean)')


def row_of(cx, rowptr, tag='rowptr', trigger=None):
    """L-ROW (discrete intermediate value): a monotone row pointer with rowptr[0] = 0 assigns every position
    0 <= k < rowptr[-1] a row r with rowptr[r] <= k < rowptr[r+1].  Returns the Skolem function."""
    row = z3.Function(cx.name('row!' + tag), z3.IntSort(), z3.IntSort())
    adj = qforall(1, lambda i: z3.Implies(z3.And(0 <= i, i + 1 < rowptr.n), rowptr.sel(i) <= rowptr.sel(i + 1)))
    body = lambda k: z3.Implies(z3.And(0 <= k, k < rowptr.sel(rowptr.n - 1)),
                                z3.And(0 <= row(k), row(k) + 1 < rowptr.n, rowptr.sel(row(k)) <= k, k < rowptr.sel(row(k) + 1)))
    from . import nparr
    if trigger is not None and nparr.BOUND is None:
        # instantiate for every position k at which the triggering array is read (E-matching pattern)
        k = z3.Int('k!row')
        concl = z3.ForAll([k], body(k), patterns=[trigger.sel(k)])
    else:
        concl = qforall(1, body)
    cx.assume(z3.Implies(z3.And(rowptr.n >= 1, rowptr.sel(z3.IntVal(0)) == 0, adj), concl),
              axiom='L-ROW: every position below rowptr[-1] lies in exactly one row of a monotone row pointer starting at 0 (lemmas/LRow.lean)')
    return row


def strict_gap(cx, vec):
    """L-MONO-GAP: adjacent strictly increasing integers are at least as far apart as their positions:
    (forall i: a[i] < a[i+1])  =>  (forall i <= j: a[j] - a[i] >= j - i)."""
    adj = qforall(1, lambda i: z3.Implies(z3.And(0 <= i, i + 1 < vec.n), vec.sel(i) < vec.sel(i + 1)))
    gap = qforall(2, lambda i, j: z3.Implies(z3.And(0 <= i, i <= j, j < vec.n), vec.sel(j) - vec.sel(i) >= j - i))
    cx.assume(z3.Implies(adj, gap), axiom='L-MONO-GAP: strictly increasing integers: a[j] - a[i] >= j - i (lemmas/LMono.lean)')
