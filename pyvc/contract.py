"""Contracts (sidecar specifications) and the per-contract VC generation."""
import ast, time, traceback
import z3
from . import extract, ops
from .core import Ctx, Obligation, PathResult, explore, PathLimit
from .interp import Interp, LoopCut, ExcClass, module_level_names, module_exception_classes, Loop
from .values import PyRaise, Unsupported, NeedFork, zbool


class State:
    """Whatever setup() wants to remember (inputs, ghosts); `.args`/`.kwargs` are passed to the function."""

    def __init__(self, **kw):
        self.args = ()
        self.kwargs = {}
        self.globals = {}
        self.__dict__.update(kw)


class Contract:
    prop = None
    fn = None  # 'module:Qual.name'
    label = None  # distinguishes several contracts on one function
    bounded = None  # text of the bound if this is a bounded stand-in, else None
    loops = {}  # loop ordinal -> Loop
    allow_raises = {}  # exception name -> callable(cx, S, exc) -> condition | True
    expect_return = True
    max_paths = 4000
    doc = ''

    def key(self):
        return self.fn + ('#' + self.label if self.label else '')

    # --- to override
    def setup(self, cx):
        return State()

    def ensures(self, cx, S, result):
        return []

    def raises(self, cx, S, e):
        """Condition under which raising `e` is acceptable; False if the contract does not allow it."""
        base = e.exc
        for name, f in self.allow_raises.items():
            if base == name or _isa(self, base, name):
                return True if f is True else f(cx, S, e)
        return False

    def cuts(self, cx, S):
        return []

    def replay(self, ob):
        """Return python source of a native replay of ob.model against the real code, or None."""
        return None

    def function(self):
        return extract.get(self.fn)


_EXC_TABLE = {}


def _isa(contract, name, target):
    from .interp import EXC_PARENTS
    table = dict(EXC_PARENTS)
    table.update(_EXC_TABLE.get(contract.fn.split(':')[0], {}))
    n = name.split(':')[0]
    k = 0
    while n is not None and k < 50:
        if n == target:
            return True
        n = table.get(n)
        k += 1
    return False


class ContractResult:
    def __init__(self, contract):
        self.contract = contract
        self.fn = None
        self.obligations = []
        self.paths = 0
        self.outcomes = {}
        self.status = 'ok'  # ok | undecided | error
        self.reason = ''
        self.dropped = set()
        self.axioms = set()
        self.notes = []
        self.vacuity = {}
        self.seconds = 0.0
        self.also = {}


def generate(contract):
    """Symbolically execute the function under `contract` and return its obligations."""
    res = ContractResult(contract)
    t0 = time.time()
    try:
        fn = contract.function()
    except extract.NotFound as e:
        res.status, res.reason = 'undecided', 'function not found: %s' % e
        return res
    res.fn = fn
    src, tree = extract.module_ast(fn.module)
    modnames = module_level_names(tree)
    excs = module_exception_classes(tree)
    # exception classes imported from sibling modules (e.g. `from ._base import MatrixError`)
    import os
    for n in tree.body:
        if isinstance(n, ast.ImportFrom) and n.level >= 1 and n.module:
            base = os.path.dirname(fn.module)
            for _ in range(n.level - 1):
                base = os.path.dirname(base)
            cand = os.path.join(base, *n.module.split('.'))
            for m in (cand, os.path.join(cand, '__init__')):
                try:
                    _, t2 = extract.module_ast(m)
                except extract.NotFound:
                    continue
                ex2 = module_exception_classes(t2)
                # bring in the imported names plus their ancestors
                for a in n.names:
                    nm = a.name
                    while nm in ex2 and nm not in excs:
                        excs[a.asname or nm if nm == a.name else nm] = ex2[nm]
                        nm = ex2[nm][0]
                break
    exc_parents = {k: v[0] for k, v in excs.items()}
    _EXC_TABLE[fn.module] = exc_parents
    states = {}

    def run_path(ctx):
        S = contract.setup(ctx)
        states[id(ctx)] = S
        ctx.in_setup = False
        g = {}
        for name, (parent, fields) in excs.items():
            g[name] = ExcClass(name, fields)
        g.update(S.globals)
        it = Interp(ctx, g, module=fn.module, loops=contract.loops, exc_parents=exc_parents, fnname=fn.ref, module_names=modnames, exact=getattr(contract, 'exact', False),
                    unroll_while=getattr(contract, 'unroll_while', 0))
        ctx.interp = it
        it.local_repr = dict(getattr(contract, 'local_repr', None) or {})
        it.sym_unpack = bool(getattr(contract, 'sym_unpack', False))
        it.index_loops(fn.node)
        try:
            if hasattr(contract, 'body'):
                # harness: the contract composes calls of real functions (each executed from its current source)
                def call(ref, *a, **k):
                    f = extract.get(ref)
                    res.also[ref] = f
                    it.index_loops(f.node)
                    return it.call_function(f.node, a, k)
                v = contract.body(ctx, S, call)
            else:
                v = it.call_function(fn.node, S.args, S.kwargs)
            return PathResult(ctx, 'return', value=v)
        except PyRaise as e:
            return PathResult(ctx, 'raise', exc=e)
        except LoopCut:
            return PathResult(ctx, 'cut')

    try:
        results = explore(run_path, max_paths=contract.max_paths)
    except Unsupported as e:
        res.status, res.reason = 'undecided', 'outside the modelled subset: %s' % e
        res.seconds = time.time() - t0
        return res
    except PathLimit as e:
        res.status, res.reason = 'undecided', str(e)
        res.seconds = time.time() - t0
        return res
    except NeedFork:
        res.status, res.reason = 'error', 'NeedFork escaped'
        return res
    except RecursionError:
        res.status, res.reason = 'undecided', 'recursion limit'
        return res

    res.paths = len(results)
    key = contract.key()
    prop = contract.prop
    for k, r in enumerate(results):
        ctx = r.ctx
        S = states[id(ctx)]
        res.outcomes[r.outcome] = res.outcomes.get(r.outcome, 0) + 1
        res.dropped |= ctx.dropped
        res.also.update(getattr(ctx, 'also_executed', None) or {})  # real bodies a contract model executed in line (listed in the evidence)
        res.notes += ctx.notes

        def mk(clause, hyps, goal, kind, info=None, bounded=None, _split=True):
            g = zbool(goal)
            if _split and kind in ('invariant', 'ensures') and z3.is_and(g) and g.num_args() > 1 and getattr(contract, 'split_conjunctions', False):
                for n_, part in enumerate(g.children()):
                    mk('%s#%d' % (clause, n_), hyps, part, kind, info, bounded, _split=True)
                return
            name = '%s/%s/path%d/%s' % (prop, key, k, clause)
            ob = Obligation(name, hyps, zbool(goal), kind, fn=key, clause=clause, path=k,
                            bounded=bounded or contract.bounded, info=info or {}, symbols=list(ctx.symbols))
            ob.contract = contract
            ob.state = S
            ob.ctx = ctx
            res.obligations.append(ob)

        for clause, hyps, goal, kind, info, bounded in ctx.obligations:
            mk(clause, hyps, goal, kind, info, bounded)
        # reachability cover: the hypotheses of this path must not be contradictory (else everything is "proved")
        mk('cover:path-hypotheses-consistent', ctx.hyps(), z3.BoolVal(False), 'cover')
        try:
            if r.outcome == 'return':
                for clause, goal in contract.ensures(ctx, S, r.value):
                    mk('ensures:' + clause, ctx.hyps(), goal, 'ensures')
            elif r.outcome == 'raise':
                cond = contract.raises(ctx, S, r.exc)
                info = {'exception': r.exc.exc, 'note': r.exc.note}
                mk('raises:' + r.exc.exc.split(':')[0] if cond is not False else 'no-raise:' + r.exc.exc, ctx.hyps(),
                   z3.BoolVal(cond) if isinstance(cond, bool) else cond, 'raises', info)
            else:
                for clause, goal in contract.cuts(ctx, S):
                    mk('cut:' + clause, ctx.hyps(), goal, 'invariant')
        except Unsupported as e:
            res.status, res.reason = 'undecided', 'postcondition outside the modelled subset: %s' % e
            break
        res.axioms |= ctx.used_axioms
    # vacuity
    res.vacuity['paths'] = res.paths
    res.vacuity['returning_paths'] = res.outcomes.get('return', 0)
    if res.status == 'ok':
        if res.paths == 0:
            res.status, res.reason = 'error', 'vacuous: precondition admits no path'
        elif contract.expect_return and not res.outcomes.get('return') and not res.outcomes.get('cut'):
            # not an error by itself: if the raising paths are refuted that is a finding; if they are all
            # justified the contract is vacuous (decided after discharge, see report.conclude)
            res.vacuous_return = True
        elif not res.obligations:
            res.status, res.reason = 'error', 'no obligations generated'
    res.seconds = time.time() - t0
    return res


def canaries(cres):
    """For each ensures clause (first path it appears on): the clause must not be a tautology."""
    seen = {}
    for ob in cres.obligations:
        if ob.kind != 'ensures' or ob.clause in seen:
            continue
        s = z3.Solver()
        s.set('timeout', 5000)
        s.add(z3.Not(ob.goal))
        seen[ob.clause] = str(s.check())
    return seen
