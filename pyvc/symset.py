"""Finite sets of OBJECTS given by identity: every element carries an integer identity `sid` (z3 Int), a set is its
characteristic predicate  mem : Int -> Bool  (a Python callable producing a z3 formula).  Supports what frozenset-valued
bookkeeping code uses: `frozenset()`, `frozenset({x})`, `{x}`, `a.union(*others)`, `a | b`, `a - b`, `a & b`, `x in a`,
truthiness (`not a`), `a.isdisjoint(b)`.  Exact: union / difference / intersection are the pointwise connectives.
Truthiness is decided by forking on "the set has a member": the non-empty branch gets a Skolem witness, the empty branch
the universally quantified emptiness hypothesis."""
import z3
from .values import Sym, SBool, Unsupported


def sid_of(x):
    s = getattr(x, 'sid', None)
    if s is None:
        raise Unsupported('set element %r has no identity term' % (x,))
    return s


class SymSet(Sym):
    def __init__(self, mem, label='set'):
        self.mem = mem
        self.label = label

    @staticmethod
    def empty():
        return SymSet(lambda e: z3.BoolVal(False), 'empty')

    @staticmethod
    def of(ctx, items):
        ids = [sid_of(x) for x in items]
        return SymSet(lambda e: z3.Or([e == i for i in ids]) if ids else z3.BoolVal(False), 'display')

    @staticmethod
    def fresh(ctx, name):
        f = z3.Function(ctx.name(name), z3.IntSort(), z3.BoolSort())
        return SymSet(lambda e: f(e), name)

    @staticmethod
    def coerce(ctx, x):
        if isinstance(x, SymSet):
            return x
        if isinstance(x, (set, frozenset, tuple, list)):
            return SymSet.of(ctx, list(x))
        raise Unsupported('not a set: %r' % (x,))

    def contains(self, ctx, x):
        return SBool(z3.simplify(self.mem(sid_of(x))))

    def binop(self, ctx, op, other, reflected):
        try:
            o = SymSet.coerce(ctx, other)
        except Unsupported:
            return NotImplemented
        a, b = (o, self) if reflected else (self, o)
        if op == '|':
            return SymSet(lambda e: z3.Or(a.mem(e), b.mem(e)), 'union')
        if op == '-':
            return SymSet(lambda e: z3.And(a.mem(e), z3.Not(b.mem(e))), 'difference')
        if op == '&':
            return SymSet(lambda e: z3.And(a.mem(e), b.mem(e)), 'intersection')
        return NotImplemented

    def truth(self, ctx):
        w = z3.Int(ctx.name('member-of-' + self.label))
        ne = z3.Bool(ctx.name('nonempty-' + self.label))
        e = z3.Int(ctx.name('e!' + self.label))
        body = z3.Not(self.mem(e))
        empty = z3.ForAll([e], body) if not z3.is_false(z3.simplify(self.mem(e))) else z3.BoolVal(True)
        ctx.assume(z3.And(z3.Implies(ne, self.mem(w)), z3.Implies(z3.Not(ne), empty)),
                   axiom='a set is truthy iff it has a member (Skolem witness / universally quantified emptiness)')
        self.witness, self.nonempty = w, ne
        return SBool(ne)

    def unop(self, ctx, op):
        if op == 'not':
            return SBool(z3.Not(self.truth(ctx).b))
        raise Unsupported('unary %s on a set' % op)

    def getattr(self, ctx, name):
        if name == 'union':
            def union(ctx, *others):
                r = self
                for o in others:
                    r = r.binop(ctx, '|', o, False)
                    if r is NotImplemented:
                        raise Unsupported('union with %r' % (o,))
                return r
            return union
        if name == 'isdisjoint':
            def isdisjoint(ctx, other):
                return z3.Not(SymSet.truth(self.binop(ctx, '&', other, False), ctx).b)
            return isdisjoint
        raise Unsupported('set.%s on a symbolic set' % name)

    def isinstance_(self, ctx, types):
        return any(getattr(t, 'name', getattr(t, '__name__', None)) in ('frozenset', 'set') for t in types)

    def compare(self, ctx, op, other, reflected):
        raise Unsupported('comparison of symbolic sets')

    def __repr__(self):
        return 'SymSet<%s>' % self.label


def frozenset_builtin(ctx, it=()):
    if isinstance(it, SymSet):
        return it
    return SymSet.of(ctx, list(it))
