"""Symbolic values and Python operator semantics over them.

Concrete Python values (int, bool, float, str, None, tuple, list, dict ...)
stay concrete; only what depends on a symbolic input becomes a term.

Sorts (DESIGN 2.2):
  SBool  z3 Bool
  SInt   Python int, mathematical (z3 Int)
  SExt   Python int | +inf | -inf | nan, as (tag, Int) with Python's float
         semantics for inf/nan (comparisons with nan false, 0*inf = nan, ...)
  SReal  exact real (z3 Real); float literals are read as the decimal they spell
  SObj   record of attributes (symbolic `self` and friends)
  SOpaque uninterpreted value (only identity / declared operations)
"""
import z3
from fractions import Fraction

FIN, PINF, NINF, NAN = 0, 1, 2, 3
INF = float('inf')


class PyRaise(Exception):
    """A Python exception raised by the program under verification (modelled)."""

    def __init__(self, exc, payload=None, note=None):
        super().__init__(exc)
        self.exc = exc  # class name as a string, e.g. 'AssertionError'
        self.payload = payload
        self.note = note


class NeedFork(Exception):
    """Raised in pure (merge) mode when evaluation would need a path split."""


class Unsupported(Exception):
    """The program left the modelled subset: verdict *undecided*, never violation."""


class Sym:
    """Base class of symbolic values."""

    def binop(self, ctx, op, other, reflected):
        return NotImplemented

    def unop(self, ctx, op):
        raise Unsupported('unary %s on %s' % (op, type(self).__name__))

    def compare(self, ctx, op, other, reflected):
        return NotImplemented

    def truth(self, ctx):
        raise Unsupported('truth of %s' % type(self).__name__)

    def getattr(self, ctx, name):
        raise Unsupported('attribute %s of %s' % (name, type(self).__name__))

    def setattr(self, ctx, name, value):
        raise Unsupported('set attribute %s of %s' % (name, type(self).__name__))

    def getitem(self, ctx, idx):
        raise Unsupported('subscript of %s' % type(self).__name__)

    def setitem(self, ctx, idx, value):
        raise Unsupported('subscript store on %s' % type(self).__name__)

    def call(self, ctx, args, kwargs):
        raise Unsupported('call of %s' % type(self).__name__)

    def iterate(self, ctx):
        raise Unsupported('iteration over %s' % type(self).__name__)

    def length(self, ctx):
        raise Unsupported('len of %s' % type(self).__name__)

    def isinstance_(self, ctx, types):
        raise Unsupported('isinstance of %s' % type(self).__name__)

    def contains(self, ctx, item):
        raise Unsupported('`in` on %s' % type(self).__name__)


# ---------------------------------------------------------------- booleans --

class SBool(Sym):
    def __init__(self, b):
        self.b = b

    def truth(self, ctx):
        return self.b

    def as_int(self):
        return SInt(z3.If(self.b, 1, 0))

    def binop(self, ctx, op, other, reflected):
        if op in ('&', '|', '^') and isinstance(other, (bool, SBool)):
            o = z3.BoolVal(other) if isinstance(other, bool) else other.b
            return SBool({'&': z3.And, '|': z3.Or, '^': z3.Xor}[op](self.b, o))
        return self.as_int().binop(ctx, op, other, reflected)

    def unop(self, ctx, op):
        if op == 'not':
            return SBool(z3.Not(self.b))
        return self.as_int().unop(ctx, op)

    def compare(self, ctx, op, other, reflected):
        if isinstance(other, (bool, SBool)) and op in ('==', '!='):
            o = z3.BoolVal(other) if isinstance(other, bool) else other.b
            return SBool(self.b == o if op == '==' else self.b != o)
        return self.as_int().compare(ctx, op, other, reflected)

    def isinstance_(self, ctx, types):
        return bool in types or int in types

    def __repr__(self):
        return 'SBool(%s)' % self.b


def zbool(x):
    """z3 Bool of a truth result (bool | BoolRef)."""
    if isinstance(x, bool):
        return z3.BoolVal(x)
    if isinstance(x, SBool):
        return x.b
    return x


# ---------------------------------------------------------------- integers --

def pyfloordiv(a, b):
    """Python floor division of z3 Ints, b != 0."""
    q = a / b
    return z3.If(b > 0, q, z3.If(a % b == 0, q, q - 1))


def pymod(a, b):
    return a - b * pyfloordiv(a, b)


def zint(x):
    if isinstance(x, bool):
        return z3.IntVal(int(x))
    if isinstance(x, int):
        return z3.IntVal(x)
    if isinstance(x, SBool):
        return z3.If(x.b, 1, 0)
    if isinstance(x, SInt):
        return x.v
    raise TypeError(x)


def is_intlike(x):
    return isinstance(x, (bool, int, SInt, SBool)) and not isinstance(x, float)


class SInt(Sym):
    def __init__(self, v):
        self.v = v if z3.is_expr(v) else z3.IntVal(v)

    def truth(self, ctx):
        return self.v != 0

    def isinstance_(self, ctx, types):
        return int in types

    def getattr(self, ctx, name):
        if name == '__index__':
            return lambda ctx: self
        raise Unsupported('attribute %s of int' % name)

    def binop(self, ctx, op, other, reflected):
        if isinstance(other, float) and not is_extfloat(other):
            return SReal(z3.ToReal(self.v)).binop(ctx, op, other, reflected)
        if isinstance(other, float) or isinstance(other, SExt):
            return SExt.lift(self).binop(ctx, op, other, reflected)
        if isinstance(other, SReal):
            return SReal(z3.ToReal(self.v)).binop(ctx, op, other, reflected)
        if not is_intlike(other):
            return NotImplemented
        a, b = (zint(other), self.v) if reflected else (self.v, zint(other))
        if op == '+':
            return SInt(a + b)
        if op == '-':
            return SInt(a - b)
        if op == '*':
            return SInt(a * b)
        if op in ('//', '%'):
            if not ctx.branch(b != 0):
                raise PyRaise('ZeroDivisionError')
            return SInt(pyfloordiv(a, b) if op == '//' else pymod(a, b))
        if op == '/':
            if not ctx.branch(b != 0):
                raise PyRaise('ZeroDivisionError')
            return SReal(z3.ToReal(a) / z3.ToReal(b))
        if op == '**':
            e = z3.simplify(b)
            if z3.is_int_value(e) and 0 <= e.as_long() <= 8:
                r = z3.IntVal(1)
                for _ in range(e.as_long()):
                    r = r * a
                return SInt(r)
            raise Unsupported('symbolic exponent')
        raise Unsupported('int op ' + op)

    def unop(self, ctx, op):
        if op == '-':
            return SInt(-self.v)
        if op == '+':
            return self
        if op == 'not':
            return SBool(self.v == 0)
        if op == 'abs':
            return SInt(z3.If(self.v < 0, -self.v, self.v))
        raise Unsupported('unary ' + op)

    def compare(self, ctx, op, other, reflected):
        if isinstance(other, float) or isinstance(other, SExt):
            return SExt.lift(self).compare(ctx, op, other, reflected)
        if isinstance(other, SReal):
            return SReal(z3.ToReal(self.v)).compare(ctx, op, other, reflected)
        if other is None or isinstance(other, (str, tuple)):
            if op == '==':
                return False
            if op == '!=':
                return True
            raise PyRaise('TypeError')
        if not is_intlike(other):
            return NotImplemented
        a, b = (zint(other), self.v) if reflected else (self.v, zint(other))
        return SBool({'<': a < b, '<=': a <= b, '>': a > b, '>=': a >= b, '==': a == b, '!=': a != b}[op])

    def __repr__(self):
        return 'SInt(%s)' % self.v


# ------------------------------------------------ extended ints (int|inf|nan) --

def is_extfloat(x):
    return isinstance(x, float) and (x != x or x in (INF, -INF))


class SExt(Sym):
    """Python value that is an int, float('inf'), float('-inf') or nan."""

    def __init__(self, t, v):
        self.t = t if z3.is_expr(t) else z3.IntVal(t)
        self.v = v if z3.is_expr(v) else z3.IntVal(v)

    @staticmethod
    def fresh(name):
        return SExt(z3.Int(name + '.t'), z3.Int(name + '.v'))

    @staticmethod
    def lift(x):
        if isinstance(x, SExt):
            return x
        if isinstance(x, float):
            if x == INF:
                return SExt(PINF, 0)
            if x == -INF:
                return SExt(NINF, 0)
            if x != x:
                return SExt(NAN, 0)
            raise Unsupported('finite float %r in extended-int arithmetic' % x)
        if is_intlike(x):
            return SExt(FIN, zint(x))
        raise TypeError(x)

    @staticmethod
    def liftable(x):
        return isinstance(x, SExt) or is_intlike(x) or is_extfloat(x)

    # predicates (z3 Bool)
    def isfin(self):
        return self.t == FIN

    def isnan(self):
        return self.t == NAN

    def truth(self, ctx):
        return z3.Not(z3.And(self.t == FIN, self.v == 0))

    def isinstance_(self, ctx, types):
        r = []
        if int in types:
            r.append(self.t == FIN)
        if float in types:
            r.append(self.t != FIN)
        return z3.Or(*r) if r else False

    def sign(self):
        return z3.If(self.t == PINF, 1, z3.If(self.t == NINF, -1, z3.If(self.v > 0, 1, z3.If(self.v < 0, -1, 0))))

    def ite(c, a, b):
        return SExt(z3.If(c, a.t, b.t), z3.If(c, a.v, b.v))

    # relations as z3 Bool, Python float semantics
    def lt(a, b):
        nn = z3.And(a.t != NAN, b.t != NAN)
        return z3.And(nn, z3.Or(z3.And(a.t == NINF, b.t != NINF), z3.And(b.t == PINF, a.t != PINF), z3.And(a.t == FIN, b.t == FIN, a.v < b.v)))

    def le(a, b):
        nn = z3.And(a.t != NAN, b.t != NAN)
        return z3.And(nn, z3.Or(a.t == NINF, b.t == PINF, z3.And(a.t == FIN, b.t == FIN, a.v <= b.v)))

    def eq(a, b):
        return z3.And(a.t != NAN, b.t != NAN, a.t == b.t, z3.Or(a.t != FIN, a.v == b.v))

    def neg(a):
        return SExt(z3.If(a.t == PINF, NINF, z3.If(a.t == NINF, PINF, a.t)), -a.v)

    def add(a, b):
        nan = z3.Or(a.t == NAN, b.t == NAN, z3.And(a.t == PINF, b.t == NINF), z3.And(a.t == NINF, b.t == PINF))
        t = z3.If(nan, NAN, z3.If(z3.Or(a.t == PINF, b.t == PINF), PINF, z3.If(z3.Or(a.t == NINF, b.t == NINF), NINF, FIN)))
        return SExt(t, z3.If(t == FIN, a.v + b.v, 0))

    def mul(a, b):
        anynan = z3.Or(a.t == NAN, b.t == NAN)
        bothfin = z3.And(a.t == FIN, b.t == FIN)
        s = a.sign() * b.sign()
        t = z3.If(anynan, NAN, z3.If(bothfin, FIN, z3.If(s == 0, NAN, z3.If(s > 0, PINF, NINF))))
        return SExt(t, z3.If(bothfin, a.v * b.v, 0))

    def abs_(a):
        return SExt(z3.If(a.t == NINF, PINF, a.t), z3.If(a.v < 0, -a.v, a.v))

    def binop(self, ctx, op, other, reflected):
        if not SExt.liftable(other):
            return NotImplemented
        o = SExt.lift(other)
        a, b = (o, self) if reflected else (self, o)
        if op == '+':
            return a.add(b)
        if op == '-':
            return a.add(b.neg())
        if op == '*':
            return a.mul(b)
        if op in ('//', '%'):
            # int//int: exact.  Anything involving inf/nan yields a float that is not int/inf/nan in
            # general (5 // inf == 0.0): outside the ExtInt sort -> modelled as an error the contract
            # cannot allow.
            if not ctx.branch(z3.And(a.t == FIN, b.t == FIN)):
                raise PyRaise('ModelError:float-intermediate', note='%s with a non-int operand yields a float' % op)
            if not ctx.branch(b.v != 0):
                raise PyRaise('ZeroDivisionError')
            return SExt(FIN, pyfloordiv(a.v, b.v) if op == '//' else pymod(a.v, b.v))
        raise Unsupported('ExtInt op ' + op)

    def unop(self, ctx, op):
        if op == '-':
            return self.neg()
        if op == '+':
            return self
        if op == 'abs':
            return self.abs_()
        if op == 'not':
            return SBool(z3.Not(self.truth(ctx)))
        raise Unsupported('unary ' + op)

    def compare(self, ctx, op, other, reflected):
        if not SExt.liftable(other):
            if op == '==':
                return False
            if op == '!=':
                return True
            return NotImplemented
        o = SExt.lift(other)
        a, b = (o, self) if reflected else (self, o)
        r = {'<': lambda: a.lt(b), '<=': lambda: a.le(b), '>': lambda: b.lt(a), '>=': lambda: b.le(a),
             '==': lambda: a.eq(b), '!=': lambda: z3.Not(a.eq(b))}[op]()
        return SBool(r)

    def __repr__(self):
        return 'SExt(%s,%s)' % (self.t, self.v)


# ------------------------------------------------------------------- reals --

def zreal(x):
    if isinstance(x, SReal):
        return x.v
    if isinstance(x, bool):
        return z3.RealVal(int(x))
    if isinstance(x, int):
        return z3.RealVal(x)
    if isinstance(x, float):
        f = Fraction(repr(x))  # the decimal the literal spells
        return z3.RealVal(str(f))
    if isinstance(x, Fraction):
        return z3.RealVal(str(x))
    if isinstance(x, (SInt, SBool)):
        return z3.ToReal(zint(x))
    raise TypeError(x)


class SReal(Sym):
    def __init__(self, v):
        self.v = v if z3.is_expr(v) else zreal(v)

    def truth(self, ctx):
        return self.v != 0

    def isinstance_(self, ctx, types):
        return float in types

    def binop(self, ctx, op, other, reflected):
        try:
            o = zreal(other)
        except TypeError:
            return NotImplemented
        a, b = (o, self.v) if reflected else (self.v, o)
        if op == '+':
            return SReal(a + b)
        if op == '-':
            return SReal(a - b)
        if op == '*':
            return SReal(a * b)
        if op == '/':
            if not ctx.branch(b != 0):
                raise PyRaise('ZeroDivisionError')
            return SReal(a / b)
        if op == '**':
            e = z3.simplify(b)
            if z3.is_rational_value(e) and e.denominator_as_long() == 1 and 0 <= e.numerator_as_long() <= 8:
                r = z3.RealVal(1)
                for _ in range(e.numerator_as_long()):
                    r = r * a
                return SReal(r)
            raise Unsupported('symbolic exponent')
        raise Unsupported('real op ' + op)

    def unop(self, ctx, op):
        if op == '-':
            return SReal(-self.v)
        if op == '+':
            return self
        if op == 'abs':
            return SReal(z3.If(self.v < 0, -self.v, self.v))
        if op == 'not':
            return SBool(self.v == 0)
        raise Unsupported('unary ' + op)

    def compare(self, ctx, op, other, reflected):
        try:
            o = zreal(other)
        except TypeError:
            return NotImplemented
        a, b = (o, self.v) if reflected else (self.v, o)
        return SBool({'<': a < b, '<=': a <= b, '>': a > b, '>=': a >= b, '==': a == b, '!=': a != b}[op])

    def __repr__(self):
        return 'SReal(%s)' % self.v


# ----------------------------------------------------------------- objects --

class SObj(Sym):
    """A record with named attributes; reading an undeclared attribute is outside the model."""

    def __init__(self, clsname, attrs=None, classes=(), methods=None, truthy=True):
        self.clsname = clsname
        self.attrs = dict(attrs or {})
        self.classes = tuple(classes) or (clsname,)  # names accepted by isinstance
        self.methods = dict(methods or {})  # name -> callable(ctx, self, *args, **kwargs)
        self._truthy = truthy

    def getattr(self, ctx, name):
        if name in self.attrs:
            v = self.attrs[name]
            if isinstance(v, Lazy):
                v = self.attrs[name] = v.force(ctx)
            return v
        if name in self.methods:
            m = self.methods[name]
            return BoundMethod(self, m, name)
        raise Unsupported('attribute %s.%s is not declared in the contract model' % (self.clsname, name))

    def setattr(self, ctx, name, value):
        self.attrs[name] = value

    def truth(self, ctx):
        return self._truthy

    def isinstance_(self, ctx, types):
        for t in types:
            n = t if isinstance(t, str) else getattr(t, '__name__', None)
            if n in self.classes:
                return True
        return False

    def compare(self, ctx, op, other, reflected):
        if op in ('==', '!='):
            same = other is self
            return same if op == '==' else not same
        return NotImplemented

    def __repr__(self):
        return 'SObj<%s>' % self.clsname


class Lazy:
    def __init__(self, f):
        self.f = f

    def force(self, ctx):
        return self.f(ctx)


class BoundMethod(Sym):
    def __init__(self, obj, fn, name):
        self.obj, self.fn, self.name = obj, fn, name

    def call(self, ctx, args, kwargs):
        return self.fn(ctx, self.obj, *args, **kwargs)

    def truth(self, ctx):
        return True


class SOpaque(Sym):
    """Uninterpreted value: supports identity comparison only unless ops are declared."""
    _n = 0

    def __init__(self, label, sort=None, term=None, attrs=None, methods=None):
        self.label = label
        self.term = term
        self.attrs = dict(attrs or {})
        self.methods = dict(methods or {})

    def getattr(self, ctx, name):
        if name in self.attrs:
            return self.attrs[name]
        if name in self.methods:
            return BoundMethod(self, self.methods[name], name)
        raise Unsupported('attribute %s of opaque %s' % (name, self.label))

    def compare(self, ctx, op, other, reflected):
        if op in ('==', '!=') and (other is self):
            return op == '=='
        if op in ('==', '!=') and isinstance(other, SOpaque) and self.term is not None and other.term is not None:
            return SBool(self.term == other.term if op == '==' else self.term != other.term)
        return NotImplemented

    def truth(self, ctx):
        return True

    def binop(self, ctx, op, other, reflected):
        if self.label == 'str' and op in ('+', '%') and (isinstance(other, str) or (isinstance(other, SOpaque) and other.label == 'str')):
            return SOpaque('str')  # message construction is opaque (DESIGN 3)
        return NotImplemented

    def havoc(self, ctx, name):
        return SOpaque(name, attrs=self.attrs, methods=self.methods)

    def call(self, ctx, args, kwargs):
        if '__call__' in self.methods:
            return self.methods['__call__'](ctx, self, *args, **kwargs)
        raise Unsupported('call of opaque %s' % self.label)

    def __repr__(self):
        return 'SOpaque<%s>' % self.label


class STerm(Sym):
    """A value of an uninterpreted (or any z3) sort: supports ==, != and conditional merge only.
    `pytypes` lists the Python types it claims to be an instance of (e.g. (str,) for names)."""

    def __init__(self, term, pytypes=(), label=None):
        self.term = term
        self.pytypes = tuple(pytypes)
        self.label = label or str(term)

    def compare(self, ctx, op, other, reflected):
        if op in ('==', '!='):
            if isinstance(other, STerm) and other.term.sort() == self.term.sort():
                e = self.term == other.term
                return SBool(e if op == '==' else z3.Not(e))
            return op == '!='
        return NotImplemented

    def isinstance_(self, ctx, types):
        return any(t in self.pytypes for t in types)

    def truth(self, ctx):
        return True

    def merge_with(self, c, other, reflected):
        if isinstance(other, STerm) and other.term.sort() == self.term.sort() and other.pytypes == self.pytypes:
            return STerm(z3.If(c, other.term, self.term) if reflected else z3.If(c, self.term, other.term), self.pytypes)
        return NotImplemented

    def havoc(self, ctx, name):
        return STerm(ctx.const(name, self.term.sort(), report=False), self.pytypes)

    def __repr__(self):
        return 'STerm(%s)' % self.term


# -------------------------------------------------------------- merge (ite) --

def merge(c, a, b):
    """Value of `a if c else b` as one term; NeedFork when sorts do not unify."""
    if a is b:
        return a
    if isinstance(a, tuple) and isinstance(b, tuple) and len(a) == len(b):
        return tuple(merge(c, x, y) for x, y in zip(a, b))
    if isinstance(a, (bool, SBool)) and isinstance(b, (bool, SBool)):
        if isinstance(a, bool) and isinstance(b, bool) and a == b:
            return a
        return SBool(z3.If(c, zbool(a), zbool(b)))
    if is_intlike(a) and is_intlike(b):
        if not isinstance(a, Sym) and not isinstance(b, Sym) and a == b and type(a) == type(b):
            return a
        return SInt(z3.If(c, zint(a), zint(b)))
    if SExt.liftable(a) and SExt.liftable(b):
        if isinstance(a, float) and isinstance(b, float) and (a == b):
            return a
        return SExt.ite(c, SExt.lift(a), SExt.lift(b))
    if isinstance(a, (SReal, float, int)) and isinstance(b, (SReal, float, int)) and (isinstance(a, SReal) or isinstance(b, SReal)):
        return SReal(z3.If(c, zreal(a), zreal(b)))
    if a is None and b is None:
        return None
    if type(a) == type(b) and not isinstance(a, Sym):
        try:
            if a == b:
                return a
        except Exception:
            pass
    if hasattr(a, 'merge_with'):
        r = a.merge_with(c, b, False)
        if r is not NotImplemented:
            return r
    if hasattr(b, 'merge_with'):
        r = b.merge_with(c, a, True)
        if r is not NotImplemented:
            return r
    raise NeedFork()
