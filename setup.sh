#!/bin/bash
# Offline setup: verify the tools the checks need; nothing is downloaded, nothing is kept under /tmp.
set -e
cd "$(dirname "$0")"
python3-vt -c "import z3; print('z3 wheel', z3.get_version_string())"
/usr/bin/cvc5 --version | head -1 || true
/usr/bin/z3 --version || true
/venv/bin/python -c "import numpy; print('native python ok, numpy', numpy.__version__)"
mkdir -p evidence replay
echo setup ok
